use pmtiles2::{PMTiles, TileType, Compression};
fn main(){
    // two different 16-byte contents that collide under the crate's fixed-key fallback aHash
    let mut a = 0xa4093822299f31d0u64.to_le_bytes().to_vec(); a.extend_from_slice(&[0u8;8]);
    let mut b = 0xa4093822299f31d0u64.to_le_bytes().to_vec(); b.extend_from_slice(&[1u8;8]);
    assert_ne!(a, b);
    let mut pm = PMTiles::new(TileType::Png, Compression::None);
    pm.add_tile(1, a.clone()).unwrap();
    pm.add_tile(2, b.clone()).unwrap();
    let got = pm.get_tile_by_id(1).unwrap().unwrap();
    if got != a { println!("F9 CONFIRMED: tile 1 returns tile 2's bytes after adding tile 2"); std::process::exit(1); }
    println!("no collision");
}
