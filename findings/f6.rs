use pmtiles2::Entry;
fn main(){
    let e = Entry { tile_id: u64::MAX - 1, offset: 0, length: 1, run_length: 5 };
    let r = e.tile_id_range();
    assert_eq!(r.start, u64::MAX - 1);
    println!("F6 ok {:?}", r);
}
