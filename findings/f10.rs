use pmtiles2::{Directory, Entry, Compression};
use std::io::{Write, Result, Error, ErrorKind};
struct Failing { ops: usize, fail_from: usize, data: Vec<u8> }
impl Write for Failing {
    fn write(&mut self, b: &[u8]) -> Result<usize> {
        self.ops += 1;
        if self.ops > self.fail_from { return Err(Error::new(ErrorKind::Other, "boom")); }
        self.data.extend_from_slice(b); Ok(b.len())
    }
    fn flush(&mut self) -> Result<()> { self.ops += 1; if self.ops > self.fail_from { return Err(Error::new(ErrorKind::Other, "boom")); } Ok(()) }
}
fn main(){
    let dir: Directory = vec![Entry{tile_id:0, offset:0, length:5, run_length:1}, Entry{tile_id:7, offset:9, length:5, run_length:1}].into();
    let mut full = Vec::new();
    dir.to_writer(&mut full, Compression::GZip).unwrap();
    let mut bad = 0;
    for k in 0..12 {
        let mut w = Failing{ops:0, fail_from:k, data:Vec::new()};
        let r = dir.to_writer(&mut w, Compression::GZip);
        if r.is_ok() && w.data != full { println!("fail_from={k}: Ok(()) but {} of {} bytes written", w.data.len(), full.len()); bad += 1; }
    }
    if bad > 0 { println!("F10 CONFIRMED"); std::process::exit(1); }
    println!("no silent truncation");
}
