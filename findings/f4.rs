use pmtiles2::{PMTiles, TileType, Compression, util::tile_id};
fn main(){
    let mut pm = PMTiles::new(TileType::Png, Compression::None);
    pm.add_tile(tile_id(2,0,0), vec![9]).unwrap();
    assert_eq!(pm.get_tile(0,0,2).unwrap(), Some(vec![9]));
    assert_eq!(pm.get_tile(4,0,2).unwrap(), None, "x outside the grid aliases another tile");
    assert_eq!(pm.get_tile(0,0,33).unwrap(), None);
    assert_eq!(pm.get_tile(0,0,200).unwrap(), None);
    println!("F4 ok");
}
