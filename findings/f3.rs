use pmtiles2::PMTiles;
fn main(){
    let bytes: &[u8] = include_bytes!("../test/stamen_toner(raster)CC-BY+ODbL_z3.pmtiles");
    let pm = PMTiles::from_bytes_partially(bytes, ..0).unwrap();
    assert_eq!(pm.num_tiles(), 0);
    let pm = PMTiles::from_bytes_partially(bytes, ..1).unwrap();
    assert_eq!(pm.num_tiles(), 1);
    println!("F3 ok");
}
