// F11: sync and async decompressors disagree on a section holding more than one frame/member (C12)
use pmtiles2::util::{compress_all, decompress, decompress_async};
use pmtiles2::Compression;
use std::io::Read;
fn main() {
    let mut bad = 0;
    for c in [Compression::GZip, Compression::Brotli, Compression::ZStd] {
        let a = compress_all(c, b"hello ").unwrap();
        let b = compress_all(c, b"world").unwrap();
        for (name, tail) in [("second frame", b.clone()), ("zero padding", vec![0u8; 8])] {
            let mut both = a.clone();
            both.extend_from_slice(&tail);
            let mut cur = std::io::Cursor::new(both.clone());
            let s = decompress(c, &mut cur).and_then(|mut r| { let mut v = Vec::new(); r.read_to_end(&mut v).map(|_| v) });
            let mut acur = futures::io::Cursor::new(both.clone());
            let r = tokio_test::block_on(async {
                use futures::AsyncReadExt;
                let mut r = decompress_async(c, &mut acur)?;
                let mut v = Vec::new();
                r.read_to_end(&mut v).await.map(|_| v)
            });
            let same = match (&s, &r) { (Ok(x), Ok(y)) => x == y, (Err(_), Err(_)) => true, _ => false };
            println!("{:?} + {}: sync={:?} async={:?} {}", c, name, s.as_ref().map(|v| String::from_utf8_lossy(v).to_string()).map_err(|e| e.kind()), r.as_ref().map(|v| String::from_utf8_lossy(v).to_string()).map_err(|e| e.kind()), if same {"same"} else {"DIFFER"});
            if !same { bad += 1; }
        }
    }
    if bad > 0 { println!("F11 CONFIRMED"); std::process::exit(1); }
    println!("sync and async agree");
}
