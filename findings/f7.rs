use pmtiles2::{Directory, Entry, Compression, util::read_directories};
use std::io::Cursor;
fn main(){
    let which = std::env::args().nth(1).unwrap();
    // a root directory with one leaf pointer
    let (off, len_fix) = match which.as_str() { "cycle" => (0u64, true), _ => (u64::MAX - 1, false) };
    let mut dir: Directory = vec![Entry{tile_id:0, offset: off, length: 1, run_length: 0}].into();
    let mut buf = Cursor::new(Vec::new());
    dir.to_writer(&mut buf, Compression::None).unwrap();
    let n = buf.get_ref().len() as u32;
    if len_fix { dir[0].length = n; buf = Cursor::new(Vec::new()); dir.to_writer(&mut buf, Compression::None).unwrap(); }
    let bytes = buf.into_inner();
    let leaf_base = if which == "cycle" { 0 } else { 5 };
    // child thread with a small stack so unbounded recursion shows up quickly as an abort
    let r = read_directories(&mut Cursor::new(&bytes), Compression::None, (0, bytes.len() as u64), leaf_base, ..);
    assert!(r.is_err());
    println!("F7 {which} ok");
}
