use pmtiles2::Header;
fn main(){
    // header bytes with a stored coordinate value 21 (=2.1e-6 deg) must survive decode->encode
    let mut h = Header::from_bytes(include_bytes!("../test/stamen_toner(raster)CC-BY+ODbL_z3.pmtiles")).unwrap();
    for v in [21i32, 1, -1, 7, 1234567, -1800000000, 1800000000, 33, -21] {
        h.min_pos.longitude = f64::from(v) / 10_000_000.0;
        let mut out = Vec::new();
        h.to_writer(&mut out).unwrap();
        let h2 = Header::from_bytes(&out).unwrap();
        let back = (h2.min_pos.longitude * 10_000_000.0).round() as i32;
        assert_eq!(back, v, "stored coordinate {} came back as {}", v, back);
    }
    println!("F2 ok");
}
