use pmtiles2::PMTiles;
fn main(){
    let mut bytes = include_bytes!("../test/stamen_toner(raster)CC-BY+ODbL_z3.pmtiles").to_vec();
    // tile_data_offset is the 7th u64 after magic(7)+version(1): offset 8 + 6*8 = 56
    bytes[56..64].copy_from_slice(&u64::MAX.to_le_bytes());
    let r = PMTiles::from_bytes(&bytes);
    assert!(r.is_err());
    println!("F8 ok");
}
