use pmtiles2::{PMTiles, TileType, Compression};
use std::io::{Cursor, Seek, SeekFrom, Write};
fn main() {
    let mut pm = PMTiles::new(TileType::Png, Compression::None);
    pm.add_tile(0, vec![1,2,3]).unwrap();
    let mut out = Cursor::new(Vec::<u8>::new());
    out.write_all(&[0xAA;10]).unwrap();
    pm.to_writer(&mut out).unwrap();
    let end = out.stream_position().unwrap();
    let buf = out.into_inner();
    assert_eq!(&buf[..10], &[0xAA;10], "prefix destroyed");
    assert_eq!(end as usize, buf.len());
    let mut rd = PMTiles::from_bytes(&buf[10..]).expect("reopen");
    assert_eq!(rd.get_tile_by_id(0).unwrap().unwrap(), vec![1,2,3]);
    println!("F1 ok");
}
