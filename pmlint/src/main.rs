//! pmlint — a `rustc_private` front end that exports the *resolved, type-checked* program of the
//! crate being compiled as JSON facts (HIR bodies with resolved callees, expression types,
//! rustc-evaluated constants, ADT layouts, trait impls and the raw helper attributes of the
//! expanded AST).  It decides nothing itself: the rules live in /verif/bin (python) and work on
//! these facts only.  Injected as RUSTC_WORKSPACE_WRAPPER under `cargo +nightly check`.
#![feature(rustc_private)]
#![feature(box_patterns)]
#![allow(clippy::all)]

extern crate rustc_abi;
extern crate rustc_ast;
extern crate rustc_ast_pretty;
extern crate rustc_driver;
extern crate rustc_hir;
extern crate rustc_interface;
extern crate rustc_middle;
extern crate rustc_span;

mod json;
use json::J;

use rustc_driver::{Callbacks, Compilation};
use rustc_hir as hir;
use rustc_hir::def::{DefKind, Res};
use rustc_hir::def_id::{DefId, LocalDefId};
use rustc_interface::interface;
use rustc_middle::ty::{self, TyCtxt, TypeckResults};
use rustc_span::{ExpnKind, MacroKind, Span};

struct Cb {
    out_dir: Option<String>,
    nonce: String,
    attrs: Vec<J>,
}

fn main() {
    let mut args: Vec<String> = std::env::args().collect();
    // RUSTC_WORKSPACE_WRAPPER protocol: argv[1] is the path of the real rustc.
    if args.len() > 1 && (args[1].ends_with("rustc") || args[1].contains("/rustc")) {
        args.remove(1);
    }
    let out_dir = std::env::var("PMLINT_OUT").ok();
    let nonce = std::env::var("PMLINT_NONCE").unwrap_or_default();
    let mut cb = Cb { out_dir, nonce, attrs: Vec::new() };
    rustc_driver::run_compiler(&args, &mut cb);
}

impl Callbacks for Cb {
    fn config(&mut self, _config: &mut interface::Config) {}

    fn after_expansion<'tcx>(&mut self, _c: &interface::Compiler, tcx: TyCtxt<'tcx>) -> Compilation {
        if self.out_dir.is_none() {
            return Compilation::Continue;
        }
        let resolver_and_krate = tcx.resolver_for_lowering().borrow();
        let krate = &*resolver_and_krate.1;
        let mut v = AttrCollector { out: Vec::new(), stack: Vec::new() };
        rustc_ast::visit::walk_crate(&mut v, krate);
        self.attrs = v.out;
        Compilation::Continue
    }

    fn after_analysis<'tcx>(&mut self, _c: &interface::Compiler, tcx: TyCtxt<'tcx>) -> Compilation {
        let Some(dir) = self.out_dir.clone() else {
            return Compilation::Continue;
        };
        let d = Dumper { tcx };
        let mut root = d.dump_crate();
        if let J::Obj(ref mut v) = root {
            v.push(("nonce".into(), J::Str(self.nonce.clone())));
            v.push(("attrs".into(), J::Arr(std::mem::take(&mut self.attrs))));
        }
        let name = tcx.crate_name(rustc_hir::def_id::LOCAL_CRATE).to_string();
        let feats = d.features();
        let tag = if feats.is_empty() { "nofeat".to_string() } else { feats.join("+") };
        let path = format!("{}/{}--{}.json", dir, name, tag);
        let s = root.to_string();
        // one write per process
        std::fs::write(&path, s).expect("pmlint: cannot write fact file");
        Compilation::Continue
    }
}

// ------------------------------------------------------------------------------------------
// expanded-AST attribute collector (derive helper attributes such as #[deku(..)] do not reach HIR)

struct AttrCollector {
    out: Vec<J>,
    stack: Vec<String>,
}

impl AttrCollector {
    fn record(&mut self, kind: &str, name: &str, attrs: &[rustc_ast::Attribute]) {
        let mut list = Vec::new();
        for a in attrs {
            if a.is_doc_comment() {
                continue;
            }
            let s = rustc_ast_pretty::pprust::attribute_to_string(a);
            list.push(J::Str(s));
        }
        if list.is_empty() {
            return;
        }
        let mut path = self.stack.clone();
        path.push(name.to_string());
        self.out.push(J::obj(vec![
            ("kind", J::Str(kind.into())),
            ("path", J::Str(path.join("::"))),
            ("attrs", J::Arr(list)),
        ]));
    }
}

impl<'ast> rustc_ast::visit::Visitor<'ast> for AttrCollector {
    fn visit_item(&mut self, i: &'ast rustc_ast::Item) {
        use rustc_ast::ItemKind;
        let name = match &i.kind {
            ItemKind::Struct(id, ..)
            | ItemKind::Enum(id, ..)
            | ItemKind::Union(id, ..)
            | ItemKind::Mod(_, id, ..)
            | ItemKind::Fn(box rustc_ast::Fn { ident: id, .. })
            | ItemKind::Const(box rustc_ast::ConstItem { ident: id, .. }) => id.name.to_string(),
            _ => String::new(),
        };
        let kind = match &i.kind {
            ItemKind::Struct(..) => "struct",
            ItemKind::Enum(..) => "enum",
            ItemKind::Mod(..) => "mod",
            ItemKind::Fn(..) => "fn",
            ItemKind::Const(..) => "const",
            _ => "other",
        };
        if !name.is_empty() {
            self.record(kind, &name, &i.attrs);
            self.stack.push(name);
            rustc_ast::visit::walk_item(self, i);
            self.stack.pop();
        } else {
            rustc_ast::visit::walk_item(self, i);
        }
    }
    fn visit_field_def(&mut self, f: &'ast rustc_ast::FieldDef) {
        let name = f.ident.map(|i| i.name.to_string()).unwrap_or_else(|| "<tuple>".into());
        self.record("field", &name, &f.attrs);
        rustc_ast::visit::walk_field_def(self, f);
    }
    fn visit_variant(&mut self, v: &'ast rustc_ast::Variant) {
        let name = v.ident.name.to_string();
        self.record("variant", &name, &v.attrs);
        self.stack.push(name);
        rustc_ast::visit::walk_variant(self, v);
        self.stack.pop();
    }
}

// ------------------------------------------------------------------------------------------

struct Dumper<'tcx> {
    tcx: TyCtxt<'tcx>,
}

struct BodyCx<'a, 'tcx> {
    d: &'a Dumper<'tcx>,
    tr: &'tcx TypeckResults<'tcx>,
}

fn s(x: impl Into<String>) -> J {
    J::Str(x.into())
}

impl<'tcx> Dumper<'tcx> {
    fn features(&self) -> Vec<String> {
        let mut v = Vec::new();
        for (name, val) in self.tcx.sess.config.iter() {
            if name.as_str() == "feature" {
                if let Some(val) = val {
                    v.push(val.to_string());
                }
            }
        }
        v.sort();
        v
    }

    fn path(&self, did: DefId) -> String {
        ty::print::with_no_visible_paths!(ty::print::with_no_trimmed_paths!(self.tcx.def_path_str(did)))
    }

    fn ty_str(&self, t: ty::Ty<'tcx>) -> String {
        ty::print::with_no_visible_paths!(ty::print::with_no_trimmed_paths!(format!("{}", t)))
    }

    /// Strip bang-macro expansion layers; return (span in user source, outermost bang macro name).
    fn user_span(&self, mut sp: Span) -> (Span, Option<String>, bool) {
        let mut mac = None;
        let mut derive = false;
        let mut guard = 0;
        while sp.from_expansion() && guard < 32 {
            guard += 1;
            let data = sp.ctxt().outer_expn_data();
            match data.kind {
                ExpnKind::Macro(MacroKind::Bang, name) => {
                    mac = Some(name.to_string());
                    sp = data.call_site;
                }
                ExpnKind::Macro(MacroKind::Derive, _) => {
                    derive = true;
                    sp = data.call_site;
                }
                ExpnKind::Desugaring(_) => {
                    sp = data.call_site;
                }
                _ => break,
            }
        }
        (sp, mac, derive)
    }

    fn loc(&self, sp: Span) -> String {
        let sm = self.tcx.sess.source_map();
        let lo = sm.lookup_char_pos(sp.lo());
        let name = match &lo.file.name {
            rustc_span::FileName::Real(r) => match r.local_path() {
                Some(p) => p.to_string_lossy().to_string(),
                None => format!("{:?}", lo.file.name),
            },
            other => format!("{:?}", other),
        };
        format!("{}:{}:{}", name, lo.line, lo.col.0 + 1)
    }

    fn snippet(&self, sp: Span) -> String {
        let sm = self.tcx.sess.source_map();
        let mut t = sm.span_to_snippet(sp).unwrap_or_default();
        if t.len() > 160 {
            let mut cut = 160;
            while !t.is_char_boundary(cut) {
                cut -= 1;
            }
            t.truncate(cut);
            t.push('…');
        }
        t
    }

    fn const_value(&self, did: DefId) -> J {
        let tcx = self.tcx;
        // only non-generic consts
        if tcx.generics_of(did).own_requires_monomorphization() {
            return J::Null;
        }
        let t = tcx.type_of(did).instantiate_identity().skip_norm_wip();
        match tcx.const_eval_poly(did) {
            Ok(val) => self.const_to_json(val, t),
            Err(_) => J::Null,
        }
    }

    fn const_to_json(&self, val: rustc_middle::mir::ConstValue, t: ty::Ty<'tcx>) -> J {
        use rustc_middle::mir::ConstValue;
        match val {
            ConstValue::Scalar(sc) => {
                if let Ok(int) = sc.try_to_scalar_int() {
                    let size = int.size();
                    let bits = int.to_bits(size);
                    match t.kind() {
                        ty::Int(_) => {
                            let v = int.to_int(size);
                            J::obj(vec![("ty", s(self.ty_str(t))), ("int", J::Int(v))])
                        }
                        ty::Uint(_) => J::obj(vec![("ty", s(self.ty_str(t))), ("int", J::Int(bits as i128))]),
                        ty::Bool => J::obj(vec![("ty", s("bool")), ("bool", J::Bool(bits != 0))]),
                        ty::Float(ty::FloatTy::F64) => {
                            let f = f64::from_bits(bits as u64);
                            J::obj(vec![("ty", s("f64")), ("float", J::Str(format!("{:?}", f))), ("bits", J::Int(bits as i128))])
                        }
                        ty::Float(ty::FloatTy::F32) => {
                            let f = f32::from_bits(bits as u32);
                            J::obj(vec![("ty", s("f32")), ("float", J::Str(format!("{:?}", f))), ("bits", J::Int(bits as i128))])
                        }
                        _ => J::obj(vec![("ty", s(self.ty_str(t))), ("bits", J::Int(bits as i128))]),
                    }
                } else {
                    J::obj(vec![("ty", s(self.ty_str(t))), ("opaque", J::Bool(true))])
                }
            }
            _ => J::obj(vec![("ty", s(self.ty_str(t))), ("opaque", J::Bool(true))]),
        }
    }

    fn dump_crate(&self) -> J {
        let tcx = self.tcx;
        let mut fns = Vec::new();
        let mut consts = Vec::new();
        let mut adts = Vec::new();
        let mut impls = Vec::new();

        for id in tcx.hir_free_items() {
            let item = tcx.hir_item(id);
            let did = item.owner_id.to_def_id();
            match item.kind {
                hir::ItemKind::Const(..) => {
                    let (sp, _, derive) = self.user_span(item.span);
                    consts.push(J::obj(vec![
                        ("path", s(self.path(did))),
                        ("loc", s(self.loc(sp))),
                        ("derive", J::Bool(derive)),
                        ("value", self.const_value(did)),
                    ]));
                }
                hir::ItemKind::Struct(..) | hir::ItemKind::Enum(..) => {
                    adts.push(self.dump_adt(did, item.span));
                }
                hir::ItemKind::Impl(imp) => {
                    let self_ty = tcx.type_of(did).instantiate_identity().skip_norm_wip();
                    let (sp, _, derive) = self.user_span(item.span);
                    let trait_path = imp.of_trait.as_ref().and_then(|t| t.trait_ref.trait_def_id()).map(|d| self.path(d));
                    impls.push(J::obj(vec![
                        ("self_ty", s(self.ty_str(self_ty))),
                        ("trait", trait_path.map(s).unwrap_or(J::Null)),
                        ("loc", s(self.loc(sp))),
                        ("derive", J::Bool(derive || item.span.in_derive_expansion())),
                    ]));
                }
                _ => {}
            }
        }

        for ldid in tcx.hir_body_owners() {
            let dk = tcx.def_kind(ldid);
            match dk {
                DefKind::Fn | DefKind::AssocFn => {
                    fns.push(self.dump_fn(ldid));
                }
                DefKind::AssocConst { .. } => {
                    let did = ldid.to_def_id();
                    let (sp, _, derive) = self.user_span(tcx.def_span(did));
                    consts.push(J::obj(vec![
                        ("path", s(self.path(did))),
                        ("loc", s(self.loc(sp))),
                        ("derive", J::Bool(derive)),
                        ("value", self.const_value(did)),
                    ]));
                }
                _ => {}
            }
        }

        J::obj(vec![
            ("crate", s(tcx.crate_name(rustc_hir::def_id::LOCAL_CRATE).to_string())),
            ("features", J::Arr(self.features().into_iter().map(J::Str).collect())),
            ("consts", J::Arr(consts)),
            ("adts", J::Arr(adts)),
            ("impls", J::Arr(impls)),
            ("fns", J::Arr(fns)),
        ])
    }

    fn dump_adt(&self, did: DefId, span: Span) -> J {
        let tcx = self.tcx;
        let adt = tcx.adt_def(did);
        let mut variants = Vec::new();
        let is_enum = adt.is_enum();
        for (vidx, v) in adt.variants().iter_enumerated() {
            let mut fields = Vec::new();
            for f in v.fields.iter() {
                let fty = tcx.type_of(f.did).instantiate_identity().skip_norm_wip();
                fields.push(J::obj(vec![("name", s(f.name.to_string())), ("ty", s(self.ty_str(fty)))]));
            }
            let discr = if is_enum {
                let d = adt.discriminant_for_variant(tcx, vidx);
                J::Int(d.val as i128)
            } else {
                J::Null
            };
            variants.push(J::obj(vec![
                ("name", s(v.name.to_string())),
                ("path", s(self.path(v.def_id))),
                ("discr", discr),
                ("fields", J::Arr(fields)),
            ]));
        }
        let (sp, _, _) = self.user_span(span);
        J::obj(vec![
            ("path", s(self.path(did))),
            ("kind", s(if is_enum { "enum" } else { "struct" })),
            ("repr_int", adt.repr().int.map(|i| s(format!("{:?}", i))).unwrap_or(J::Null)),
            ("loc", s(self.loc(sp))),
            ("variants", J::Arr(variants)),
        ])
    }

    fn dump_fn(&self, ldid: LocalDefId) -> J {
        let tcx = self.tcx;
        let did = ldid.to_def_id();
        let body = tcx.hir_body_owned_by(ldid);
        let tr = tcx.typeck(ldid);
        let cx = BodyCx { d: self, tr };
        let def_span = tcx.def_span(did);
        let (sp, _, derive) = self.user_span(def_span);
        let derive = derive || def_span.in_derive_expansion();
        let sig = tcx.fn_sig(did).instantiate_identity().skip_norm_wip().skip_binder();
        let mut params = Vec::new();
        for (i, p) in body.params.iter().enumerate() {
            let t = sig.inputs().get(i).copied();
            params.push(J::obj(vec![
                ("pat", cx.pat(p.pat)),
                ("ty", t.map(|t| s(self.ty_str(t))).unwrap_or(J::Null)),
            ]));
        }
        let vis = match tcx.visibility(did) {
            ty::Visibility::Public => "pub".to_string(),
            ty::Visibility::Restricted(m) => {
                if m.is_crate_root() { "crate".into() } else { format!("in {}", self.path(m)) }
            }
        };
        // the macro (attribute) expansion this item came from, if any
        let mut attr_macro = J::Null;
        {
            let mut spx = def_span;
            let mut guard = 0;
            while spx.from_expansion() && guard < 16 {
                guard += 1;
                let data = spx.ctxt().outer_expn_data();
                if let ExpnKind::Macro(MacroKind::Attr, name) = data.kind {
                    attr_macro = s(name.to_string());
                    break;
                }
                spx = data.call_site;
            }
        }
        let parent_impl = tcx.opt_parent(did).filter(|p| matches!(tcx.def_kind(*p), DefKind::Impl { .. }));
        let self_ty = parent_impl.map(|p| s(self.ty_str(tcx.type_of(p).instantiate_identity().skip_norm_wip()))).unwrap_or(J::Null);
        let is_async = tcx.asyncness(did).is_async();
        let body_json = if derive { J::Null } else { cx.expr(body.value) };
        J::obj(vec![
            ("path", s(self.path(did))),
            ("name", s(tcx.item_name(did).to_string())),
            ("loc", s(self.loc(sp))),
            ("derive", J::Bool(derive)),
            ("attr_macro", attr_macro),
            ("vis", s(vis)),
            ("async", J::Bool(is_async)),
            ("self_ty", self_ty),
            ("params", J::Arr(params)),
            ("ret", s(self.ty_str(sig.output()))),
            ("body", body_json),
        ])
    }
}

impl<'a, 'tcx> BodyCx<'a, 'tcx> {
    fn var(&self, id: hir::HirId) -> String {
        format!("{}#{}", id.owner.def_id.local_def_index.as_u32(), id.local_id.as_u32())
    }

    fn base(&self, k: &str, e: &hir::Expr<'tcx>) -> Vec<(String, J)> {
        let (sp, mac, _) = self.d.user_span(e.span);
        let mut v: Vec<(String, J)> = vec![
            ("k".into(), s(k)),
            ("id".into(), J::Int(e.hir_id.local_id.as_u32() as i128)),
            ("ty".into(), s(self.d.ty_str(self.tr.expr_ty(e)))),
            ("loc".into(), s(self.d.loc(sp))),
        ];
        let adj = self.tr.expr_ty_adjusted(e);
        if adj != self.tr.expr_ty(e) {
            v.push(("aty".into(), s(self.d.ty_str(adj))));
        }
        if let Some(m) = mac {
            v.push(("mac".into(), s(m)));
        }
        v
    }

    fn res_json(&self, res: Res, hir_id: hir::HirId) -> Vec<(String, J)> {
        let mut v: Vec<(String, J)> = Vec::new();
        match res {
            Res::Local(id) => {
                v.push(("var".into(), s(self.var(id))));
                v.push(("name".into(), s(self.d.tcx.hir_name(id).to_string())));
            }
            Res::Def(dk, did) => {
                v.push(("def".into(), s(self.d.path(did))));
                v.push(("dk".into(), s(format!("{:?}", dk))));
                v.push(("local".into(), J::Bool(did.is_local())));
                if let Some(args) = self.tr.node_args_opt(hir_id) {
                    let a: Vec<J> = args.iter().map(|g| s(ty::print::with_no_visible_paths!(ty::print::with_no_trimmed_paths!(format!("{}", g))))).collect();
                    if !a.is_empty() {
                        v.push(("targs".into(), J::Arr(a)));
                    }
                    // try to resolve a trait item to the impl it dispatches to
                    if matches!(dk, DefKind::AssocFn) {
                        let tcx = self.d.tcx;
                        let owner = self.tr.hir_owner.def_id;
                        let env = ty::TypingEnv::post_analysis(tcx, owner);
                        if tcx.trait_of_assoc(did).is_some() {
                            if let Ok(Some(inst)) = ty::Instance::try_resolve(tcx, env, did, args) {
                                let rd = inst.def_id();
                                if rd != did {
                                    v.push(("resolved".into(), s(self.d.path(rd))));
                                }
                            }
                        }
                    }
                }
                match dk {
                    DefKind::Const { .. } | DefKind::AssocConst { .. } => {
                        v.push(("const".into(), self.d.const_value(did)));
                    }
                    DefKind::Ctor(..) => {
                        // path of the variant / struct this constructor builds
                        if let Some(p) = self.d.tcx.opt_parent(did) {
                            v.push(("ctor_of".into(), s(self.d.path(p))));
                        }
                    }
                    _ => {}
                }
            }
            Res::SelfCtor(did) => {
                v.push(("def".into(), s(format!("SelfCtor({})", self.d.path(did)))));
            }
            other => {
                v.push(("def".into(), s(format!("{:?}", other))));
            }
        }
        v
    }

    fn qpath(&self, q: &hir::QPath<'tcx>, hir_id: hir::HirId) -> Vec<(String, J)> {
        let res = self.tr.qpath_res(q, hir_id);
        self.res_json(res, hir_id)
    }

    fn lit(&self, l: &hir::Lit, neg: bool) -> Vec<(String, J)> {
        use rustc_ast::LitKind;
        let mut v: Vec<(String, J)> = Vec::new();
        match l.node {
            LitKind::Int(n, _) => {
                let x = n.get() as i128;
                v.push(("int".into(), J::Int(if neg { -x } else { x })));
            }
            LitKind::Bool(b) => v.push(("bool".into(), J::Bool(b))),
            LitKind::Float(sym, _) => {
                v.push(("float".into(), s(format!("{}{}", if neg { "-" } else { "" }, sym))))
            }
            LitKind::Str(sym, _) => v.push(("str".into(), s(sym.to_string()))),
            LitKind::ByteStr(b, _) => {
                v.push(("bytes".into(), J::Arr(b.as_byte_str().iter().map(|x| J::Int(*x as i128)).collect())))
            }
            LitKind::Byte(b) => v.push(("int".into(), J::Int(b as i128))),
            LitKind::Char(c) => v.push(("char".into(), s(c.to_string()))),
            _ => v.push(("other".into(), J::Bool(true))),
        }
        v
    }

    fn exprs(&self, es: &[hir::Expr<'tcx>]) -> J {
        J::Arr(es.iter().map(|e| self.expr(e)).collect())
    }

    fn opt_expr(&self, e: Option<&hir::Expr<'tcx>>) -> J {
        e.map(|e| self.expr(e)).unwrap_or(J::Null)
    }

    fn block(&self, b: &hir::Block<'tcx>) -> J {
        let mut stmts = Vec::new();
        for st in b.stmts {
            match st.kind {
                hir::StmtKind::Let(l) => {
                    let (sp, _, _) = self.d.user_span(l.span);
                    stmts.push(J::obj(vec![
                        ("k", s("Let")),
                        ("loc", s(self.d.loc(sp))),
                        ("pat", self.pat(l.pat)),
                        ("init", self.opt_expr(l.init)),
                        ("els", l.els.map(|b| self.block(b)).unwrap_or(J::Null)),
                    ]));
                }
                hir::StmtKind::Expr(e) => {
                    stmts.push(J::obj(vec![("k", s("Expr")), ("e", self.expr(e))]));
                }
                hir::StmtKind::Semi(e) => {
                    stmts.push(J::obj(vec![("k", s("Semi")), ("e", self.expr(e))]));
                }
                hir::StmtKind::Item(_) => {}
            }
        }
        J::obj(vec![("k", s("Block")), ("stmts", J::Arr(stmts)), ("e", self.opt_expr(b.expr))])
    }

    fn expr(&self, e: &hir::Expr<'tcx>) -> J {
        use hir::ExprKind as K;
        match e.kind {
            K::DropTemps(inner) | K::Type(inner, _) | K::Use(inner, _) => return self.expr(inner),
            _ => {}
        }
        let mut o;
        match e.kind {
            K::Lit(l) => {
                o = self.base("Lit", e);
                o.extend(self.lit(&l, false));
            }
            K::Path(ref q) => {
                let r = self.qpath(q, e.hir_id);
                let is_local = r.iter().any(|(k, _)| k == "var");
                o = self.base(if is_local { "Local" } else { "Path" }, e);
                o.extend(r);
            }
            K::Call(f, args) => {
                o = self.base("Call", e);
                if let K::Path(ref q) = f.kind {
                    let r = self.qpath(q, f.hir_id);
                    for (k, v) in r {
                        match k.as_str() {
                            "def" => o.push(("fn".into(), v)),
                            "var" => o.push(("fvar".into(), v)),
                            _ => o.push((k, v)),
                        }
                    }
                } else {
                    o.push(("f".into(), self.expr(f)));
                }
                o.push(("args".into(), self.exprs(args)));
            }
            K::MethodCall(seg, recv, args, _) => {
                o = self.base("MCall", e);
                o.push(("name".into(), s(seg.ident.name.to_string())));
                if let Some(did) = self.tr.type_dependent_def_id(e.hir_id) {
                    let r = self.res_json(Res::Def(self.d.tcx.def_kind(did), did), e.hir_id);
                    for (k, v) in r {
                        match k.as_str() {
                            "def" => o.push(("fn".into(), v)),
                            _ => o.push((k, v)),
                        }
                    }
                }
                o.push(("recv".into(), self.expr(recv)));
                o.push(("args".into(), self.exprs(args)));
            }
            K::Binary(op, l, r) => {
                o = self.base("Bin", e);
                o.push(("op".into(), s(op.node.as_str())));
                if let Some(did) = self.tr.type_dependent_def_id(e.hir_id) {
                    o.push(("ovl".into(), s(self.d.path(did))));
                }
                o.push(("l".into(), self.expr(l)));
                o.push(("r".into(), self.expr(r)));
            }
            K::Unary(op, x) => {
                // negative literal folding
                if let (hir::UnOp::Neg, K::Lit(l)) = (op, &x.kind) {
                    o = self.base("Lit", e);
                    o.extend(self.lit(l, true));
                } else {
                    o = self.base("Un", e);
                    o.push(("op".into(), s(op.as_str())));
                    if let Some(did) = self.tr.type_dependent_def_id(e.hir_id) {
                        o.push(("ovl".into(), s(self.d.path(did))));
                    }
                    o.push(("e".into(), self.expr(x)));
                }
            }
            K::Cast(x, _) => {
                o = self.base("Cast", e);
                o.push(("e".into(), self.expr(x)));
            }
            K::Let(l) => {
                o = self.base("LetCond", e);
                o.push(("pat".into(), self.pat(l.pat)));
                o.push(("e".into(), self.expr(l.init)));
            }
            K::If(c, t, el) => {
                o = self.base("If", e);
                o.push(("c".into(), self.expr(c)));
                o.push(("t".into(), self.expr(t)));
                o.push(("e".into(), self.opt_expr(el)));
            }
            K::Loop(b, _, src, _) => {
                match src {
                    hir::LoopSource::While => {
                        // loop { if cond { body } else { break } }
                        let mut done = None;
                        if let Some(inner) = b.expr {
                            let inner = peel(inner);
                            if let K::If(c, t, _) = inner.kind {
                                let mut v = self.base("While", e);
                                v.push(("c".into(), self.expr(c)));
                                v.push(("body".into(), self.expr(t)));
                                done = Some(v);
                            }
                        }
                        o = done.unwrap_or_else(|| {
                            let mut v = self.base("Loop", e);
                            v.push(("body".into(), self.block(b)));
                            v
                        });
                    }
                    _ => {
                        o = self.base("Loop", e);
                        o.push(("body".into(), self.block(b)));
                    }
                }
            }
            K::Match(scrut, arms, src) => match src {
                hir::MatchSource::TryDesugar(_) => {
                    o = self.base("Try", e);
                    let inner = match scrut.kind {
                        K::Call(_, args) if args.len() == 1 => &args[0],
                        _ => scrut,
                    };
                    o.push(("e".into(), self.expr(inner)));
                }
                hir::MatchSource::AwaitDesugar => {
                    o = self.base("Await", e);
                    let inner = match scrut.kind {
                        K::Call(_, args) if args.len() == 1 => &args[0],
                        _ => scrut,
                    };
                    o.push(("e".into(), self.expr(inner)));
                }
                hir::MatchSource::ForLoopDesugar => {
                    o = self.base("For", e);
                    let iter = match scrut.kind {
                        K::Call(_, args) if args.len() == 1 => &args[0],
                        _ => scrut,
                    };
                    o.push(("iter".into(), self.expr(iter)));
                    // arms[0].body = loop { match next(&mut iter) { None => break, Some(pat) => body } }
                    let mut found = false;
                    if let Some(arm) = arms.first() {
                        if let K::Loop(lb, ..) = peel(arm.body).kind {
                            let inner = lb.expr.map(peel).or_else(|| {
                                lb.stmts.first().and_then(|st| match st.kind {
                                    hir::StmtKind::Expr(x) | hir::StmtKind::Semi(x) => Some(peel(x)),
                                    _ => None,
                                })
                            });
                            if let Some(inner) = inner {
                                if let K::Match(_, iarms, _) = inner.kind {
                                    for ia in iarms {
                                        let inner_pat = match ia.pat.kind {
                                            hir::PatKind::TupleStruct(_, pats, _) if pats.len() == 1 => Some(&pats[0]),
                                            hir::PatKind::Struct(_, fields, _) if fields.len() == 1 => Some(fields[0].pat),
                                            _ => None,
                                        };
                                        if let Some(ip) = inner_pat {
                                            o.push(("pat".into(), self.pat(ip)));
                                            o.push(("body".into(), self.expr(ia.body)));
                                            found = true;
                                        }
                                    }
                                }
                            }
                        }
                    }
                    if !found {
                        o.push(("pat".into(), J::Null));
                        o.push(("body".into(), J::Null));
                        o.push(("undecoded".into(), J::Bool(true)));
                    }
                }
                hir::MatchSource::FormatArgs => {
                    o = self.base("FormatArgs", e);
                    o.push(("e".into(), self.expr(scrut)));
                }
                _ => {
                    o = self.base("Match", e);
                    o.push(("e".into(), self.expr(scrut)));
                    let mut av = Vec::new();
                    for a in arms {
                        av.push(J::obj(vec![
                            ("pat", self.pat(a.pat)),
                            ("guard", self.opt_expr(a.guard)),
                            ("body", self.expr(a.body)),
                        ]));
                    }
                    o.push(("arms".into(), J::Arr(av)));
                }
            },
            K::Closure(c) => {
                let body = self.d.tcx.hir_body(c.body);
                match c.kind {
                    hir::ClosureKind::Coroutine(hir::CoroutineKind::Desugared(hir::CoroutineDesugaring::Async, _)) => {
                        o = self.base("Async", e);
                        o.push(("body".into(), self.expr(body.value)));
                    }
                    _ => {
                        o = self.base("Closure", e);
                        o.push(("params".into(), J::Arr(body.params.iter().map(|p| self.pat(p.pat)).collect())));
                        o.push(("body".into(), self.expr(body.value)));
                    }
                }
            }
            K::Block(b, _) => {
                o = self.base("Block", e);
                if let J::Obj(v) = self.block(b) {
                    for (k, val) in v {
                        if k != "k" {
                            o.push((k, val));
                        }
                    }
                }
            }
            K::Assign(l, r, _) => {
                o = self.base("Assign", e);
                o.push(("l".into(), self.expr(l)));
                o.push(("r".into(), self.expr(r)));
            }
            K::AssignOp(op, l, r) => {
                o = self.base("AssignOp", e);
                let ops = op.node.as_str();
                o.push(("op".into(), s(ops.trim_end_matches('='))));
                if let Some(did) = self.tr.type_dependent_def_id(e.hir_id) {
                    o.push(("ovl".into(), s(self.d.path(did))));
                }
                o.push(("l".into(), self.expr(l)));
                o.push(("r".into(), self.expr(r)));
            }
            K::Field(x, ident) => {
                o = self.base("Field", e);
                o.push(("name".into(), s(ident.name.to_string())));
                let bt = self.tr.expr_ty_adjusted(x).peel_refs();
                o.push(("base_ty".into(), s(self.d.ty_str(bt))));
                if let ty::Adt(adt, _) = bt.kind() {
                    o.push(("adt".into(), s(self.d.path(adt.did()))));
                }
                o.push(("e".into(), self.expr(x)));
            }
            K::Index(x, i, _) => {
                o = self.base("Index", e);
                if let Some(did) = self.tr.type_dependent_def_id(e.hir_id) {
                    o.push(("ovl".into(), s(self.d.path(did))));
                }
                let bt = self.tr.expr_ty_adjusted(x).peel_refs();
                o.push(("base_ty".into(), s(self.d.ty_str(bt))));
                o.push(("e".into(), self.expr(x)));
                o.push(("i".into(), self.expr(i)));
            }
            K::AddrOf(_, m, x) => {
                o = self.base("Ref", e);
                o.push(("mut".into(), J::Bool(m.is_mut())));
                o.push(("e".into(), self.expr(x)));
            }
            K::Break(_, x) => {
                o = self.base("Break", e);
                o.push(("e".into(), self.opt_expr(x)));
            }
            K::Continue(_) => {
                o = self.base("Continue", e);
            }
            K::Ret(x) => {
                o = self.base("Ret", e);
                o.push(("e".into(), self.opt_expr(x)));
            }
            K::Struct(q, fields, tail) => {
                o = self.base("Struct", e);
                let res = self.tr.qpath_res(q, e.hir_id);
                match res {
                    Res::Def(_, did) => o.push(("adt".into(), s(self.d.path(did)))),
                    _ => {
                        // `Self { .. }` — take the ADT from the expression type
                        if let ty::Adt(adt, _) = self.tr.expr_ty(e).kind() {
                            o.push(("adt".into(), s(self.d.path(adt.did()))));
                        }
                    }
                }
                let mut fv = Vec::new();
                for f in fields {
                    fv.push(J::obj(vec![("name", s(f.ident.name.to_string())), ("e", self.expr(f.expr))]));
                }
                o.push(("fields".into(), J::Arr(fv)));
                match tail {
                    hir::StructTailExpr::Base(b) => o.push(("base".into(), self.expr(b))),
                    _ => o.push(("base".into(), J::Null)),
                }
            }
            K::Tup(es) => {
                o = self.base("Tup", e);
                o.push(("es".into(), self.exprs(es)));
            }
            K::Array(es) => {
                o = self.base("Array", e);
                o.push(("es".into(), self.exprs(es)));
            }
            K::Repeat(x, _) => {
                o = self.base("Repeat", e);
                o.push(("e".into(), self.expr(x)));
                if let ty::Array(_, n) = self.tr.expr_ty(e).kind() {
                    if let Some(n) = n.try_to_target_usize(self.d.tcx) {
                        o.push(("n".into(), J::Int(n as i128)));
                    }
                }
            }
            K::Yield(x, _) => {
                o = self.base("Yield", e);
                o.push(("e".into(), self.expr(x)));
            }
            K::ConstBlock(_) => {
                o = self.base("ConstBlock", e);
            }
            _ => {
                o = self.base("Other", e);
                o.push(("what".into(), s(format!("{:?}", std::mem::discriminant(&e.kind)))));
            }
        }
        o.push(("src".into(), s(self.d.snippet(self.d.user_span(e.span).0))));
        J::Obj(o)
    }

    fn pat(&self, p: &hir::Pat<'tcx>) -> J {
        use hir::PatKind as P;
        let mut o: Vec<(String, J)> = Vec::new();
        let tyv = s(self.d.ty_str(self.tr.pat_ty(p)));
        match p.kind {
            P::Wild | P::Missing => {
                o.push(("k".into(), s("Wild")));
            }
            P::Binding(mode, id, ident, sub) => {
                o.push(("k".into(), s("Bind")));
                o.push(("var".into(), s(self.var(id))));
                o.push(("name".into(), s(ident.name.to_string())));
                o.push(("byref".into(), J::Bool(matches!(mode.0, hir::ByRef::Yes(..)))));
                o.push(("sub".into(), sub.map(|x| self.pat(x)).unwrap_or(J::Null)));
            }
            P::Struct(ref q, fields, _) => {
                o.push(("k".into(), s("Struct")));
                let res = self.tr.qpath_res(q, p.hir_id);
                if let Res::Def(_, did) = res {
                    o.push(("adt".into(), s(self.d.path(did))));
                }
                let mut fv = Vec::new();
                for f in fields {
                    fv.push(J::obj(vec![("name", s(f.ident.name.to_string())), ("pat", self.pat(f.pat))]));
                }
                o.push(("fields".into(), J::Arr(fv)));
            }
            P::TupleStruct(ref q, pats, dd) => {
                o.push(("k".into(), s("TupleStruct")));
                let res = self.tr.qpath_res(q, p.hir_id);
                if let Res::Def(_, did) = res {
                    o.push(("ctor".into(), s(self.d.path(did))));
                    if let Some(par) = self.d.tcx.opt_parent(did) {
                        o.push(("adt".into(), s(self.d.path(par))));
                    }
                }
                o.push(("pats".into(), J::Arr(pats.iter().map(|x| self.pat(x)).collect())));
                o.push(("dd".into(), dd.as_opt_usize().map(|x| J::Int(x as i128)).unwrap_or(J::Null)));
            }
            P::Or(pats) => {
                o.push(("k".into(), s("Or")));
                o.push(("pats".into(), J::Arr(pats.iter().map(|x| self.pat(x)).collect())));
            }
            P::Tuple(pats, dd) => {
                o.push(("k".into(), s("Tuple")));
                o.push(("pats".into(), J::Arr(pats.iter().map(|x| self.pat(x)).collect())));
                o.push(("dd".into(), dd.as_opt_usize().map(|x| J::Int(x as i128)).unwrap_or(J::Null)));
            }
            P::Box(x) | P::Deref(x) | P::Ref(x, ..) => {
                o.push(("k".into(), s("RefPat")));
                o.push(("pat".into(), self.pat(x)));
            }
            P::Expr(pe) => match pe.kind {
                hir::PatExprKind::Lit { lit, negated } => {
                    o.push(("k".into(), s("LitPat")));
                    o.extend(self.lit(&lit, negated));
                }
                hir::PatExprKind::Path(ref q) => {
                    o.push(("k".into(), s("PathPat")));
                    let res = self.tr.qpath_res(q, pe.hir_id);
                    o.extend(self.res_json(res, pe.hir_id));
                }
            },
            P::Guard(x, g) => {
                o.push(("k".into(), s("GuardPat")));
                o.push(("pat".into(), self.pat(x)));
                o.push(("guard".into(), self.expr(g)));
            }
            P::Range(lo, hi, end) => {
                o.push(("k".into(), s("RangePat")));
                let bound = |pe: Option<&hir::PatExpr<'tcx>>| -> J {
                    match pe {
                        None => J::Null,
                        Some(pe) => match pe.kind {
                            hir::PatExprKind::Lit { lit, negated } => J::Obj(self.lit(&lit, negated)),
                            hir::PatExprKind::Path(ref q) => {
                                let res = self.tr.qpath_res(q, pe.hir_id);
                                match res {
                                    Res::Def(DefKind::Const { .. }, did) | Res::Def(DefKind::AssocConst { .. }, did) => self.d.const_value(did),
                                    _ => J::Null,
                                }
                            }
                        },
                    }
                };
                o.push(("lo".into(), bound(lo)));
                o.push(("hi".into(), bound(hi)));
                o.push(("inclusive".into(), J::Bool(matches!(end, hir::RangeEnd::Included))));
            }
            P::Slice(a, m, b) => {
                o.push(("k".into(), s("SlicePat")));
                let mut all: Vec<J> = a.iter().map(|x| self.pat(x)).collect();
                if let Some(m) = m {
                    all.push(self.pat(m));
                }
                all.extend(b.iter().map(|x| self.pat(x)));
                o.push(("pats".into(), J::Arr(all)));
                o.push(("min".into(), J::Int((a.len() + b.len()) as i128)));
                o.push(("nb".into(), J::Int(a.len() as i128)));
                o.push(("rest".into(), J::Bool(m.is_some())));
            }
            _ => {
                o.push(("k".into(), s("OtherPat")));
            }
        }
        o.push(("ty".into(), tyv));
        J::Obj(o)
    }
}

fn peel<'a, 'tcx>(mut e: &'a hir::Expr<'tcx>) -> &'a hir::Expr<'tcx> {
    loop {
        match e.kind {
            hir::ExprKind::DropTemps(i) | hir::ExprKind::Use(i, _) | hir::ExprKind::Type(i, _) => e = i,
            hir::ExprKind::Block(b, None) if b.stmts.is_empty() && b.expr.is_some() => e = b.expr.unwrap(),
            _ => return e,
        }
    }
}
