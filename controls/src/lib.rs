//! Control snippets for the zero-count rules: every `bad_*` function must be reported by the named rule and every `good_*`
//! function must stay silent.  pmlint + the rules run on this crate on every check run (bin/controls.py).
#![allow(dead_code, unused)]
use futures::{AsyncRead, AsyncReadExt, AsyncWrite, AsyncWriteExt};
use std::io::{Read, Result, Write};

// ---- R-XFER: short-transfer primitives
pub fn bad_xfer_short_read(r: &mut impl Read) -> Result<[u8; 8]> {
    let mut b = [0u8; 8];
    r.read(&mut b)?;
    Ok(b)
}
pub fn good_xfer_exact_read(r: &mut impl Read) -> Result<[u8; 8]> {
    let mut b = [0u8; 8];
    r.read_exact(&mut b)?;
    Ok(b)
}
pub fn bad_xfer_short_write(w: &mut impl Write, b: &[u8]) -> Result<()> {
    w.write(b)?;
    Ok(())
}
pub fn good_xfer_write_all(w: &mut impl Write, b: &[u8]) -> Result<()> {
    w.write_all(b)?;
    Ok(())
}
pub async fn bad_xfer_async_short_read(r: &mut (impl AsyncRead + Unpin)) -> Result<[u8; 8]> {
    let mut b = [0u8; 8];
    r.read(&mut b).await?;
    Ok(b)
}
pub async fn good_xfer_async_exact_read(r: &mut (impl AsyncRead + Unpin)) -> Result<[u8; 8]> {
    let mut b = [0u8; 8];
    r.read_exact(&mut b).await?;
    Ok(b)
}

// ---- R-RESULT-USED: dropped / swallowed results
pub fn bad_result_discarded(w: &mut impl Write) -> Result<()> {
    w.flush();
    Ok(())
}
pub fn bad_result_let_underscore(w: &mut impl Write) -> Result<()> {
    let _ = w.flush();
    Ok(())
}
pub fn bad_result_ok_swallow(w: &mut impl Write) -> Result<()> {
    w.flush().ok();
    Ok(())
}
pub fn bad_result_if_let_ok(w: &mut impl Write) -> Result<()> {
    if let Ok(()) = w.flush() {}
    Ok(())
}
pub async fn bad_result_future_dropped(w: &mut (impl AsyncWrite + Unpin)) -> Result<()> {
    w.flush();
    Ok(())
}
pub fn good_result_propagated(w: &mut impl Write) -> Result<()> {
    w.flush()?;
    Ok(())
}
pub fn good_result_returned(w: &mut impl Write) -> Result<()> {
    w.flush()
}
pub fn good_result_matched(w: &mut impl Write) -> Result<()> {
    match w.flush() {
        Ok(()) => Ok(()),
        Err(e) => Err(e),
    }
}
pub async fn good_result_awaited(w: &mut (impl AsyncWrite + Unpin)) -> Result<()> {
    w.flush().await?;
    Ok(())
}

// ---- R-NO-UNWRAP
pub fn bad_unwrap_result(w: &mut impl Write) {
    w.flush().unwrap();
}
pub fn bad_unwrap_expect(v: Option<u8>) -> u8 {
    v.expect("present")
}
pub fn bad_unwrap_panic(x: u8) -> u8 {
    if x == 0 {
        panic!("zero");
    }
    x
}
pub fn bad_unwrap_unreachable(x: u8) -> u8 {
    match x {
        0 => 1,
        _ => unreachable!(),
    }
}
pub fn good_unwrap_or(v: Option<u8>) -> u8 {
    v.unwrap_or(0)
}

// ---- R-NOPOLL: a hand-written poll-level stream
pub struct BadPollReader;
impl AsyncRead for BadPollReader {
    fn poll_read(self: std::pin::Pin<&mut Self>, _cx: &mut std::task::Context<'_>, _buf: &mut [u8]) -> std::task::Poll<Result<usize>> {
        std::task::Poll::Ready(Ok(0))
    }
}
pub struct BadSyncReader;
impl Read for BadSyncReader {
    fn read(&mut self, _buf: &mut [u8]) -> Result<usize> {
        Ok(0)
    }
}

// ---- R-REJ-UNKNOWN (who may construct codecs): a codec built outside a factory
pub fn bad_codec_outside_factory<'a>(w: &'a mut impl Write) -> impl Write + 'a {
    flate2::write::GzEncoder::new(w, flate2::Compression::default())
}

// ---- R-TAINT-INDEX / R-TAINT-ALLOC: the harness names parameter `n` of these functions as input-derived
pub fn bad_index_unbounded(table: &[u8], n: usize) -> u8 {
    table[n]
}
pub fn good_index_first_checked(n: usize) -> u8 {
    let sized_by_input = vec![7u8; n.min(16)];
    if sized_by_input.is_empty() {
        0
    } else {
        sized_by_input[0]
    }
}
pub fn bad_alloc_unclamped(n: usize) -> Vec<u8> {
    Vec::with_capacity(n)
}
pub fn good_alloc_clamped(n: usize) -> Vec<u8> {
    Vec::with_capacity(n.min(1024))
}
