#!/usr/bin/env python3
"""Behaviour-preserving refactors that must NOT raise any alarm (the other half of testing the checker)."""
import os, shutil, subprocess, json
REPO="/repo"; OUT=os.path.join(os.path.dirname(os.path.dirname(os.path.abspath(__file__))),"benign")
P="src/pmtiles.rs"; T="src/tile_manager.rs"; D="src/directory.rs"; R="src/util/read_directories.rs"; W="src/util/write_directories.rs"; C="src/util/compress.rs"; I="src/util/tile_id.rs"; L="src/header/lat_lng.rs"
B=[]
def ben(name, edits): B.append((name, edits))
ben("rename-start-pos", [(P, "start_pos", "archive_start")])
ben("sort-unstable-by-key", [(T, "id_tile.sort_by(|a, b| a.0.cmp(&b.0));", "id_tile.sort_unstable_by_key(|t| t.0);")])
ben("is-empty-as-len", [(T, "if vec.is_empty() {", "if vec.len() == 0 {")])
ben("budget-lt-plus-one", [(W, "    if root_directory_length <= u64::from(MAX_ROOT_DIR_LENGTH) {\n        return Ok(Vec::new());", "    if root_directory_length < u64::from(MAX_ROOT_DIR_LENGTH) + 1 {\n        return Ok(Vec::new());")])
ben("leaf-skip-swapped-operands", [(R, "if entry.tile_id > range_end {", "if range_end < entry.tile_id {")])
ben("header-literal-reordered", [(P, "            spec_version: 3,\n            root_directory_offset,\n            root_directory_length,", "            root_directory_length,\n            spec_version: 3,\n            root_directory_offset,")])
ben("zxy-guard-inline-const", [(I, "z < MAX_Z && x < (1u64 << z) && y < (1u64 << z)", "z <= 31 && x < (1u64 << z) && y < (1u64 << z)")])
ben("round-ties-even", [(L, ".round() as i32", ".round_ties_even() as i32")])
ben("extra-local-in-open", [(P, "        let mut tile_manager = TileManager::new(Some(input));", "        let backing = Some(input);\n        let mut tile_manager = TileManager::new(backing);")])
ben("comment-and-blank-lines", [(D, "        // read run_length\n", "        // second column: run lengths\n\n"), (T, "        // remove tile just to make sure that there\n        // are no unreachable tiles\n", "        // drop any previous binding of this id first\n")])
ben("remove-tile-if-let", [(T, "                if ids_with_hash.is_empty() {\n                    self.data_by_hash.remove(&hash);\n                    self.ids_by_hash.remove(&hash);\n                }", "                if ids_with_hash.len() == 0 {\n                    self.ids_by_hash.remove(&hash);\n                    self.data_by_hash.remove(&hash);\n                }")])
ben("rle-drop-length-conjunct", [(T, "                && last.offset == offset\n                && last.length == length", "                && last.offset == offset")])
def main():
    for f in os.listdir(OUT) if os.path.isdir(OUT) else []:
        if f.endswith(".patch"): os.remove(os.path.join(OUT,f))
    os.makedirs(OUT, exist_ok=True)
    n=0
    for name, edits in B:
        tmp="/tmp/mkmut/b"; shutil.rmtree(tmp, ignore_errors=True)
        subprocess.check_call(["git","-C",REPO,"worktree","add","-q","--detach",tmp,"HEAD"])
        try:
            ok=True
            for fn,old,new in edits:
                p=os.path.join(tmp,fn); t=open(p).read()
                if old not in t: print("!!",name,"pattern missing in",fn); ok=False; break
                open(p,"w").write(t.replace(old,new))
            if ok:
                open(os.path.join(OUT,name+".patch"),"w").write(subprocess.check_output(["git","-C",tmp,"diff"],text=True)); n+=1
        finally:
            subprocess.call(["git","-C",REPO,"worktree","remove","--force",tmp])
    print("wrote",n,"benign patches")
main()
