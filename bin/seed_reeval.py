#!/usr/bin/env python3
"""usage: seed_reeval.py [ids...] — re-evaluate kept seeds against the current rules and refresh `detected_by` in their meta.json.
A seed whose patch no longer applies to /repo's HEAD keeps its recorded result (marked stale)."""
import json, os, shutil, sys
sys.path.insert(0, os.path.dirname(os.path.abspath(__file__)))
import mutants, registry

SD = os.path.join(mutants.VERIF, "seeded")
ids = sys.argv[1:] or sorted(os.listdir(SD))
miss = []
for sid in ids:
    mp = os.path.join(SD, sid, "meta.json")
    pp = os.path.join(SD, sid, "patch.diff")
    if not (os.path.exists(mp) and os.path.exists(pp)):
        continue
    meta = json.load(open(mp))
    d = mutants.scratch_copy("/repo")
    try:
        ok, out = mutants.apply_patch(d, pp)
        if not ok:
            meta["stale"] = "patch no longer applies to HEAD"
            print(sid, "STALE")
        else:
            built = mutants.build(d)
            fired = {}
            for p in sorted(registry.PROPERTIES):
                bad, note = mutants.evaluate(p, d, built=built)
                if bad:
                    fired[p] = sorted(bad)
            meta["detected_by"] = fired
            meta["detected_by_own_property_check"] = bool(fired.get(meta["property"]))
            meta.pop("stale", None)
            print(sid, "own:", fired.get(meta["property"]), "| others:", sorted(k for k in fired if k != meta["property"]))
            if not fired.get(meta["property"]):
                miss.append(sid)
        json.dump(meta, open(mp, "w"), indent=1)
    finally:
        shutil.rmtree(d, ignore_errors=True)
print("not caught by own property's check:", miss)
