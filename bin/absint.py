"""Structured path enumeration + symbolic (affine-capable) evaluation over pmlint HIR facts.

This is a *static* abstract interpreter: it never runs library code and never asks a solver.  For one
function it enumerates the structured paths of its HIR body (every if/match arm, `?` exit, let-else
exit; each loop as "zero iterations" or "one representative iteration started from a havoc'd state"),
and along each path it
  * evaluates every expression to a symbolic term (immutable lets are inlined; values assigned in loops are
    havoc'd to fresh atoms whose sources are remembered for dependence queries),
  * tracks an abstract position for every stream-like variable (seek / stream_position / write_all / other effects),
  * records an ordered list of events (calls with resolved callee and argument terms, arithmetic, stores,
    index operations, branch decisions, struct literals, loop boundaries, the exit and its kind).
Rules (rules_*.py) are predicates over these paths.
"""
from hir import peel, fmt, fmt_pat, rel, short

MAX_PATHS = 4096


class PathExplosion(Exception):
    pass


# ------------------------------------------------------------------------------------------------
# terms

def C(n):
    return ("c", n)


def V(name):
    return ("v", name)


INT_TYPES = {"u8", "u16", "u32", "u64", "u128", "usize", "i8", "i16", "i32", "i64", "i128", "isize"}
INT_BITS = {"u8": 8, "u16": 16, "u32": 32, "u64": 64, "u128": 128, "usize": 64,
            "i8": 8, "i16": 16, "i32": 32, "i64": 64, "i128": 128, "isize": 64}


def is_int_ty(t):
    return t in INT_TYPES


_WIDTH = {"u8": 8, "i8": 8, "u16": 16, "i16": 16, "u32": 32, "i32": 32, "u64": 64, "i64": 64, "usize": 64, "isize": 64, "u128": 128, "i128": 128}


def narrowing_casts(t):
    """the integer casts inside a term that can lose high bits (`x as u16` for a wider x)"""
    out = []
    for s in subterms(t):
        if isinstance(s, tuple) and s and s[0] == "cast" and len(s) > 3 and s[1] in _WIDTH and s[3] in _WIDTH and _WIDTH[s[1]] < _WIDTH[s[3]]:
            out.append(s)
    return out


# callees whose result is a function of the arguments only (no hidden state, no effect)
PURE_SUFFIX = (
    "::len", "::is_empty", "::clone", "::cloned", "::copied", "::as_ref", "::as_slice", "::as_raw_slice",
    "::to_vec", "::iter", "::into_iter", "::enumerate", "::contains", "::end_bound", "::start_bound",
    "::unwrap_or", "::unwrap_or_default", "::cmp", "::partial_cmp", "::eq", "::ne", "::min", "::max",
    "::get", "::first", "::last", "::keys", "::values", "::abs_diff", "::view_bits", "::into",
    "::from", "::is_leaf_dir_entry", "::tile_id_range", "::is_some", "::is_none", "::is_ok", "::is_err",
    "::contains_key", "::leading_zeros", "::trailing_zeros", "::count_ones", "::round", "::floor", "::ceil",
    "::trunc", "::round_ties_even", "::abs", "::pow", "::checked_pow", "::map", "::sum", "::collect",
    "::chunks", "::Some", "::Ok", "::Err",
    "::as_mut", "::as_deref", "::as_deref_mut", "::by_ref", "::get_mut", "::get_ref", "::into_inner", "::borrow", "::borrow_mut",
    "::ok_or", "::ok_or_else", "::unwrap_or_else", "::map_err", "::filter", "::zip", "::rev", "::skip", "::take_while", "::iter_mut", "::first_mut",
    "::last_mut", "::to_owned", "::to_string", "::as_bytes", "::as_str",
)
# note: constructors (`::new`, `::with_capacity`, `::default`) are allocation sites: two calls are two objects, so they are not pure here

ARITH_METHODS = {
    # name -> (operator, flavour)
    "checked_add": ("+", "checked"), "checked_sub": ("-", "checked"), "checked_mul": ("*", "checked"),
    "saturating_add": ("+", "saturating"), "saturating_sub": ("-", "saturating"), "saturating_mul": ("*", "saturating"),
    "wrapping_add": ("+", "wrapping"), "wrapping_sub": ("-", "wrapping"), "wrapping_mul": ("*", "wrapping"),
    "overflowing_add": ("+", "overflowing"), "overflowing_sub": ("-", "overflowing"),
    "checked_shl": ("<<", "checked"), "checked_div": ("/", "checked"), "checked_rem": ("%", "checked"),
}

# Option/Result adaptors that keep the payload
PAYLOAD_TRANSPARENT = (
    "core::option::Option::<T>::ok_or", "core::option::Option::<T>::ok_or_else",
    "core::result::Result::<T, E>::map_err", "core::option::Option::<T>::expect",
    "core::option::Option::<T>::unwrap", "core::result::Result::<T, E>::unwrap",
    "core::result::Result::<T, E>::expect", "core::result::Result::<T, E>::ok",
)


# combinators that transform the payload of an Option/Result with a closure (modelled at payload level, like `?`)
MAP_OR_LIKE = ("core::option::Option::<T>::map_or", "core::result::Result::<T, E>::map_or")
MAP_LIKE = (
    "core::result::Result::<T, E>::map", "core::option::Option::<T>::map",
    "core::result::Result::<T, E>::and_then", "core::option::Option::<T>::and_then",
)


def leaves(t, out=None):
    """atoms a term is built from: ('v',..) atoms and opaque call results"""
    if out is None:
        out = set()
    if not isinstance(t, tuple) or not t:
        return out
    tag = t[0]
    if tag == "v":
        out.add(t)
    elif tag == "c" or tag == "lit":
        pass
    elif tag == "call":
        if t[3] is not None:
            out.add(t)  # an effectful call result is itself an atom …
        for a in t[2]:
            leaves(a, out)  # … that also depends on its arguments
    elif tag == "f":
        out.add(t)
        leaves(t[1], out)
    elif tag in ("bin",):
        leaves(t[2], out)
        leaves(t[3], out)
    elif tag in ("un", "cast"):
        leaves(t[2], out)
    elif tag in ("tup", "arr"):
        for a in t[1]:
            leaves(a, out)
    elif tag == "struct":
        for _, a in t[2]:
            leaves(a, out)
        if t[3] is not None:
            leaves(t[3], out)
    elif tag == "proj":
        out.add(t)
        leaves(t[1], out)
    elif tag == "elem":
        out.add(t)
        leaves(t[1], out)
    elif tag == "idx":
        out.add(t)
        leaves(t[1], out)
        leaves(t[2], out)
    elif tag == "mut":
        leaves(t[1], out)
    elif tag == "clos":
        for a in t[2]:
            leaves(a, out)
    elif tag == "cond":
        for a in t[1:]:
            leaves(a, out)
    elif tag == "shift":
        out.add(t)
        leaves(t[1], out)
        leaves(t[2], out)
    return out


def subterms(t):
    """every sub-term, pre-order"""
    if not isinstance(t, tuple) or not t:
        return
    yield t
    tag = t[0]
    if tag == "call":
        for a in t[2]:
            yield from subterms(a)
    elif tag == "f":
        yield from subterms(t[1])
    elif tag == "bin":
        yield from subterms(t[2])
        yield from subterms(t[3])
    elif tag in ("un", "cast"):
        yield from subterms(t[2])
    elif tag in ("tup", "arr"):
        for a in t[1]:
            yield from subterms(a)
    elif tag == "struct":
        for _, a in t[2]:
            yield from subterms(a)
        if t[3] is not None:
            yield from subterms(t[3])
    elif tag in ("proj", "elem", "mut"):
        yield from subterms(t[1])
    elif tag == "idx":
        yield from subterms(t[1])
        yield from subterms(t[2])
    elif tag == "clos":
        for a in t[2]:
            yield from subterms(a)
    elif tag == "cond":
        for a in t[1:]:
            yield from subterms(a)
    elif tag == "shift":
        yield from subterms(t[1])
        yield from subterms(t[2])


def tstr(t, depth=0):
    """human-readable term"""
    if not isinstance(t, tuple) or not t:
        return str(t)
    if depth > 10:
        return "…"
    d = depth + 1
    tag = t[0]
    if tag == "c":
        return str(t[1])
    if tag == "v":
        return t[1]
    if tag == "lit":
        return repr(t[2])
    if tag == "f":
        return "%s.%s" % (tstr(t[1], d), t[2])
    if tag == "call":
        return "%s(%s)%s" % (short(t[1]), ", ".join(tstr(a, d) for a in t[2]), ("#%s" % t[3]) if t[3] is not None else "")
    if tag == "bin":
        return "(%s %s %s)" % (tstr(t[2], d), t[1], tstr(t[3], d))
    if tag == "un":
        return "%s%s" % (t[1], tstr(t[2], d))
    if tag == "cast":
        return "(%s as %s)" % (tstr(t[2], d), t[1])
    if tag == "tup":
        return "(%s)" % ", ".join(tstr(a, d) for a in t[1])
    if tag == "arr":
        return "[%s]" % ", ".join(tstr(a, d) for a in t[1])
    if tag == "struct":
        return "%s{%s}" % (short(t[1]), ", ".join("%s: %s" % (n, tstr(a, d)) for n, a in t[2]))
    if tag == "proj":
        return "%s.%s" % (tstr(t[1], d), t[2])
    if tag == "elem":
        return "elem(%s)" % tstr(t[1], d)
    if tag == "idx":
        return "%s[%s]" % (tstr(t[1], d), tstr(t[2], d))
    if tag == "mut":
        return "%s'%s" % (tstr(t[1], d), t[2][2] if isinstance(t[2], tuple) else t[2])
    if tag == "clos":
        return "closure#%s" % t[1]
    if tag == "cond":
        return "phi(%s)" % ", ".join(tstr(a, d) for a in t[1:])
    if tag == "unit":
        return "()"
    if tag == "shift":
        return "prev(%s; first %s)" % (tstr(t[2], d), tstr(t[1], d))
    return str(t)


# ------------------------------------------------------------------------------------------------
# affine normal form

def affine(t):
    """term -> (const, {atom_term: coef}).  Non-affine sub-terms become atoms.  Integer casts / From / checked_*
    arithmetic are transparent (the value on the non-overflowing, non-truncating path)."""
    tag = t[0] if isinstance(t, tuple) and t else None
    if tag == "c":
        return (t[1], {})
    if tag == "cast":
        if is_int_ty(t[1]) or t[1] == "":
            inner_ty = t[3] if len(t) > 3 else None
            if inner_ty is None or is_int_ty(inner_ty):
                return affine(t[2])
        return (0, {t: 1})
    if tag == "mut":
        return (0, {t: 1})
    if tag == "bin":
        op = t[1]
        if op in ("+", "-"):
            a = affine(t[2])
            b = affine(t[3])
            sign = 1 if op == "+" else -1
            coefs = dict(a[1])
            for k, v in b[1].items():
                coefs[k] = coefs.get(k, 0) + sign * v
                if coefs[k] == 0:
                    del coefs[k]
            return (a[0] + sign * b[0], coefs)
        if op == "*":
            a = affine(t[2])
            b = affine(t[3])
            if not a[1]:
                return (a[0] * b[0], {k: v * a[0] for k, v in b[1].items() if v * a[0] != 0})
            if not b[1]:
                return (a[0] * b[0], {k: v * b[0] for k, v in a[1].items() if v * b[0] != 0})
        return (0, {t: 1})
    return (0, {t: 1})


def aff_sub(a, b):
    coefs = dict(a[1])
    for k, v in b[1].items():
        coefs[k] = coefs.get(k, 0) - v
        if coefs[k] == 0:
            del coefs[k]
    return (a[0] - b[0], coefs)


def aff_add(a, b):
    coefs = dict(a[1])
    for k, v in b[1].items():
        coefs[k] = coefs.get(k, 0) + v
        if coefs[k] == 0:
            del coefs[k]
    return (a[0] + b[0], coefs)


def aff_eq(a, b):
    return a[0] == b[0] and a[1] == b[1]


def aff_str(a):
    parts = []
    for k, v in sorted(a[1].items(), key=lambda kv: tstr(kv[0])):
        s = tstr(k)
        if v == 1:
            parts.append("+" + s)
        elif v == -1:
            parts.append("-" + s)
        else:
            parts.append("%+d·%s" % (v, s))
    if a[0] != 0 or not parts:
        parts.insert(0, str(a[0]))
    r = " ".join(parts)
    return r[1:] if r.startswith("+") else r


# ------------------------------------------------------------------------------------------------
# effect model (resolved def-paths; DESIGN §3.6)

READ_FNS = {
    "std::io::Read::read": "short", "std::io::Read::read_exact": "exact", "std::io::Read::read_to_end": "to_end",
    "std::io::Read::read_to_string": "to_end", "std::io::Read::read_vectored": "short", "std::io::Read::bytes": "to_end",
    "futures_util::io::AsyncReadExt::read": "short", "futures_util::io::AsyncReadExt::read_exact": "exact",
    "futures_util::io::AsyncReadExt::read_to_end": "to_end", "futures_util::io::AsyncReadExt::read_to_string": "to_end",
    "futures_util::io::AsyncReadExt::read_vectored": "short",
    "integer_encoding::reader::VarIntReader::read_varint": "varint",
    "integer_encoding::reader::VarIntAsyncReader::read_varint_async": "varint",
    "serde_json::de::from_reader": "to_end",
    "std::io::BufRead::fill_buf": "short", "std::io::copy": "to_end", "futures_util::io::copy": "to_end",
}
WRITE_FNS = {
    "std::io::Write::write": "short", "std::io::Write::write_all": "all", "std::io::Write::write_fmt": "all",
    "std::io::Write::write_vectored": "short",
    "futures_util::io::AsyncWriteExt::write": "short", "futures_util::io::AsyncWriteExt::write_all": "all",
    "futures_util::io::AsyncWriteExt::write_vectored": "short",
    "integer_encoding::writer::VarIntWriter::write_varint": "varint",
    "integer_encoding::writer::VarIntAsyncWriter::write_varint_async": "varint",
    "serde_json::ser::to_writer": "all",
}
FLUSH_FNS = {
    "std::io::Write::flush": "flush", "futures_util::io::AsyncWriteExt::flush": "flush",
    "futures_util::io::AsyncWriteExt::close": "close",
}
SEEK_FNS = {"std::io::Seek::seek": "seek", "futures_util::io::AsyncSeekExt::seek": "seek", "std::io::Seek::rewind": "rewind"}
POS_FNS = {"std::io::Seek::stream_position": "pos", "futures_util::io::AsyncSeekExt::stream_position": "pos", "std::io::cursor::Cursor::<T>::position": "pos"}
SEEKFROM_START = ("std::io::SeekFrom::Start",)
SEEKFROM_CURRENT = ("std::io::SeekFrom::Current",)
SEEKFROM_END = ("std::io::SeekFrom::End",)

# constructors / adaptors that wrap a stream without touching it
WRAP_FNS = (
    "std::io::Read::take", "futures_util::io::AsyncReadExt::take", "std::io::Read::by_ref",
    "util::compress::compress", "util::compress::compress_async",
    "util::compress::decompress", "util::compress::decompress_async",
    "alloc::boxed::Box::<T>::new", "alloc::boxed::Box::<T>::pin", "std::io::cursor::Cursor::<T>::new",
    "futures_util::io::cursor::Cursor::<T>::new",
    "futures_util::io::buf_reader::BufReader::<R>::new", "std::io::buffered::bufreader::BufReader::<R>::new",
    "core::option::Option::Some", "core::result::Result::Ok", "tile_manager::TileManager::<R>::new",
    "core::mem::drop",
)


def is_codec_ctor(fn):
    return fn is not None and (
        fn.startswith("flate2::") or fn.startswith("brotli") or fn.startswith("zstd::") or fn.startswith("async_compression::")
    ) and (fn.endswith("::new") or fn.endswith("::auto_finish") or fn.endswith("::with_quality"))


# ------------------------------------------------------------------------------------------------

class Event:
    __slots__ = ("kind", "node", "d", "loops", "seq", "clos")

    def __init__(self, kind, node, d, loops, clos):
        self.kind = kind
        self.node = node
        self.d = d
        self.loops = loops
        self.clos = clos
        self.seq = -1

    def loc(self):
        n = self.node
        return rel(n.get("loc", "")) if n else ""

    def __repr__(self):
        return "<%s %s %s>" % (self.kind, self.loc(), {k: (tstr(v) if isinstance(v, tuple) else v) for k, v in self.d.items() if k not in ("args",)})


class State:
    __slots__ = ("env", "pos", "under", "events", "ctrl", "loops", "vers", "retval", "sc", "breakval")

    def __init__(self):
        self.env = {}
        self.pos = {}      # stream key (var id) -> term
        self.under = {}    # var id -> frozenset of stream keys it wraps (including itself)
        self.events = []
        self.ctrl = None   # None | 'break' | 'continue'
        self.loops = ()
        self.vers = 0
        self.retval = None
        self.sc = ()
        self.breakval = None

    def fork(self):
        s = State()
        s.env = dict(self.env)
        s.pos = dict(self.pos)
        s.under = dict(self.under)
        s.events = list(self.events)
        s.ctrl = self.ctrl
        s.loops = self.loops
        s.vers = self.vers
        s.retval = self.retval
        s.sc = self.sc
        s.breakval = self.breakval
        return s


class Path:
    def __init__(self, events, exit_kind, value, env):
        self.events = events
        self.exit = exit_kind  # 'ok' | 'err' | 'tail' | 'unit'
        self.value = value
        self.env = env
        for i, e in enumerate(events):
            e.seq = i

    def decisions(self, upto=None):
        for e in self.events:
            if upto is not None and e.seq >= upto:
                break
            if e.kind == "decide":
                yield e

    def calls(self, pred=None):
        for e in self.events:
            if e.kind == "call" and (pred is None or pred(e)):
                yield e


class FnAnalysis:
    def __init__(self, facts, fn, summaries=None):
        self.facts = facts
        self.fn = fn
        self.summaries = summaries or {}
        self.paths = []
        self.uid = 0
        self.havoc_src = {}   # atom ('v', name) -> set of terms assigned to it
        self.havoc_init = {}  # atom ('v', name) -> the values it had when its loop was entered (subset of havoc_src)
        self.params = {}      # name -> var id
        self.param_names = []
        self.read_filled = {}
        self.whole_alias = {}
        self.var_names = {}
        self.var_types = {}
        self.closure_depth = 0
        self.alias = {}
        self.frames = []          # stack of callee paths being inlined
        self.no_inline = getattr(facts, "no_inline", None)
        self.cur_clos = None
        self._run()

    def _write_targets(self):
        """names of locals handed as `&mut x` to something that writes to it through the stream interface (Write::write_all(&mut x, ..), a local
        callee whose summary writes to that parameter): such a byte vector is a sink whose length is its stream position"""
        if not hasattr(self, "_wt"):
            from hir import walk
            out = set()
            bodies = [self.fn["body"]]
            for fr in list(self.frames):
                cal = self.facts.fn(fr)
                if cal is not None and cal.get("body") is not None:
                    bodies.append(cal["body"])
            seen_fns = set()
            work = list(bodies)
            while work:
                b = work.pop()
                for n in walk(b):
                    if n["k"] not in ("Call", "MCall"):
                        continue
                    fn = n.get("fn") or ""
                    args = ([n["recv"]] if n["k"] == "MCall" else []) + n["args"]
                    summ = self.summaries.get(fn)
                    for i, a in enumerate(args):
                        tgt = a
                        while tgt is not None and tgt["k"] == "Ref":
                            tgt = tgt["e"]
                        if tgt is None or tgt["k"] != "Local":
                            continue
                        writes = (fn in WRITE_FNS and i == 0) or (summ is not None and "write" in (summ.get(i) or ()))
                        if writes:
                            out.add(tgt.get("name"))
                    cal = self.facts.fn(fn) if fn in getattr(self.facts, "fns", {}) else None
                    if cal is not None and cal.get("body") is not None and fn not in seen_fns and cal.get("vis") != "pub":
                        seen_fns.add(fn)
                        work.append(cal["body"])
            self._wt = out
        return self._wt

    # -- helpers
    def fresh(self):
        self.uid += 1
        return self.uid

    def ev(self, st, kind, node, **d):
        if self.frames:
            d["inl"] = tuple(self.frames)
        if st.sc and kind in ("arith", "index", "call", "cast"):
            d["sc"] = st.sc
        e = Event(kind, node, d, st.loops, self.cur_clos)
        st.events.append(e)
        return e

    def _run(self):
        st = State()
        for i, p in enumerate(self.fn["params"]):
            self._bind_param(st, p["pat"], i)
        body = self.fn["body"]
        outs = self.eval(body, st)
        for s, v in outs:
            if s.ctrl is None:
                self.finish(s, v, None)
        if len(self.paths) > MAX_PATHS:
            raise PathExplosion(self.fn["path"])

    def _bind_param(self, st, pat, idx):
        if pat["k"] == "Bind":
            name = pat["name"]
            self.params[name] = pat["var"]
            self.param_names.append(name)
            self.var_names[pat["var"]] = name
            self.var_types[pat["var"]] = pat["ty"]
            st.env[pat["var"]] = V("param:" + name)
            st.under[pat["var"]] = frozenset([pat["var"]])
        else:
            base = V("param:#%d" % idx)
            self.param_names.append("#%d" % idx)
            self.bind(st, pat, base)
            # destructured parameters are parameters too
            for var, name in _pat_vars(pat):
                self.params[name] = var

    def finish(self, st, value, node):
        if self.frames:
            st.ctrl = "ret"
            st.retval = value
            self._ret_states.append(st)
            return
        kind = self.exit_kind(value)
        self.ev(st, "exit", node, exit=kind, value=value)
        self.paths.append(Path(st.events, kind, value, st.env))
        if len(self.paths) > MAX_PATHS:
            raise PathExplosion(self.fn["path"])

    def exit_kind(self, v):
        v = self.strip_future(v)
        if isinstance(v, tuple) and v and v[0] == "call":
            if v[1] == "core::result::Result::Ok":
                return "ok"
            if v[1] == "core::result::Result::Err":
                return "err"
        if isinstance(v, tuple) and v and v[0] == "errprop":
            return "err"
        ret = self.fn["ret"]
        if "Result<" in ret:
            return "tail"
        return "unit"

    def strip_future(self, v):
        while isinstance(v, tuple) and v and v[0] == "call" and v[1] in ("alloc::boxed::Box::<T>::pin", "alloc::boxed::Box::<T>::new") and len(v[2]) == 1:
            v = v[2][0]
        return v

    # -- pattern binding
    def bind(self, st, pat, val, src=None):
        k = pat["k"]
        if k == "Bind":
            st.env[pat["var"]] = val
            self.var_names[pat["var"]] = pat["name"]
            self.var_types[pat["var"]] = pat["ty"]
            al = self.alias_target(src)
            if al is not None:
                # `let x = y` / `let x = &mut y`: x *is* the stream y (async fns rebind every parameter this way)
                self.alias[pat["var"]] = al
                if al in st.env and _strip_mut(st.env[al]) == _strip_mut(val):
                    self.whole_alias[pat["var"]] = al          # … and it denotes the whole object, not a part reached through a pattern
                st.under[pat["var"]] = st.under.get(al, frozenset([al]))
            else:
                st.under[pat["var"]] = frozenset([pat["var"]]) | self.under_of_src(st, src, pat["ty"])
            if pat["sub"] is not None:
                self.bind(st, pat["sub"], val, src)
        elif k == "Tuple":
            for i, p in enumerate(pat["pats"]):
                self.bind(st, p, self.proj(val, i), src)
        elif k == "TupleStruct":
            ctor = pat.get("ctor", "?")
            for i, p in enumerate(pat["pats"]):
                self.bind(st, p, self.proj(val, "%s.%d" % (short(ctor), i), ctor=ctor, idx=i), src)
        elif k == "Struct":
            for f in pat["fields"]:
                self.bind(st, f["pat"], self.field(val, f["name"]), src)
        elif k in ("RefPat", "GuardPat"):
            self.bind(st, pat["pat"], val, src)
        elif k == "Or":
            for p in pat["pats"]:
                self.bind(st, p, val, src)
        elif k == "SlicePat":
            v_ = val
            while isinstance(v_, tuple) and v_ and v_[0] == "mut":
                v_ = v_[1]
            fixed = isinstance(v_, tuple) and v_ and v_[0] == "arr" and not pat.get("rest") and len(v_[1]) == len(pat["pats"])
            nb = pat.get("nb", len(pat["pats"]))
            has_rest = bool(pat.get("rest"))
            n_after = len(pat["pats"]) - nb - (1 if has_rest else 0)
            for i, p in enumerate(pat["pats"]):
                if fixed:
                    # `[a, b, c]` against a visible array literal of the same length binds the elements themselves
                    self.bind(st, p, v_[1][i], src)
                elif i < nb or not has_rest:
                    self.bind(st, p, ("idx", val, C(i)), src)
                elif i == nb:
                    continue        # the `..` rest
                else:
                    r = len(pat["pats"]) - 1 - i      # distance from the end: 0 = last element
                    if r == 0:
                        self.bind(st, p, ("call", "core::slice::<impl [T]>::last", (val,), None), src)
                    else:
                        self.bind(st, p, ("idx", val, ("bin", "-", ("call", "len", (val,), None), C(r + 1))), src)

    def alias_target(self, src):
        e = src
        while e is not None:
            k = e["k"]
            if k in ("Ref", "Try"):
                e = e["e"]
            elif k == "MCall" and (e.get("fn") in PAYLOAD_TRANSPARENT or (e.get("fn") or "").endswith(("Option::<T>::as_mut", "Option::<T>::as_deref_mut", "::by_ref", "::borrow_mut"))):
                e = e["recv"]
            elif k == "Un" and e["op"] == "*":
                e = e["e"]
            elif k == "Local":
                return self.canon(e["var"])
            else:
                return None
        return None

    def canon(self, var):
        seen = 0
        while var in self.alias and seen < 16:
            var = self.alias[var]
            seen += 1
        return var

    def under_of_src(self, st, src, ty):
        """streams a freshly bound variable may wrap: every local mentioned in its initialiser, unless the variable
        has a plain value type (integers, bools, unit never wrap a stream)"""
        if src is None:
            return frozenset()
        if not is_streamlike_ty(ty):
            return frozenset()
        from hir import walk
        out = set()
        for n in walk(src):
            if n["k"] == "Local":
                vid = self.canon(n["var"])
                out |= st.under.get(vid, frozenset([vid]))
        return frozenset(out)

    def proj(self, val, key, ctor=None, idx=None):
        if isinstance(val, tuple) and val:
            if val[0] == "tup" and isinstance(key, int) and key < len(val[1]):
                return val[1][key]
            if val[0] == "call" and ctor is not None and val[1] == ctor and idx is not None and idx < len(val[2]) and val[3] is None:
                return val[2][idx]
        # Option/Result are modelled at payload level (like `?`): matching Some(x)/Ok(x) on an opaque value yields the value
        if ctor in ("core::option::Option::Some", "core::result::Result::Ok") and idx == 0:
            return val
        return ("proj", val, key)

    def field(self, val, name):
        # a value that differs from an older one only in named fields (`x.f = v`, mem::replace(&mut x.f, v)): other fields read through
        while isinstance(val, tuple) and val and val[0] == "mut" and isinstance(val[2], tuple) and val[2] and val[2][0] == "fld":
            if val[2][1] == name:
                return val[2][3]
            val = val[1]
        if isinstance(val, tuple) and val and val[0] == "struct":
            for n, t in val[2]:
                if n == name:
                    return t
            if val[3] is not None:
                return ("f", val[3], name)
        if isinstance(val, tuple) and val and val[0] == "tup" and name.isdigit() and int(name) < len(val[1]):
            return val[1][int(name)]
        return ("f", val, name)

    # -- streams
    def stream_keys(self, st, expr):
        """stream keys (var ids) an expression denotes / wraps: root local of a place expression, plus what it wraps"""
        e = expr
        while e is not None:
            k = e["k"]
            if k in ("Ref", "Try", "Await"):
                e = e["e"]
            elif k == "Un" and e["op"] == "*":
                e = e["e"]
            elif k == "Field":
                e = e["e"]
            elif k == "Local":
                vid = self.canon(e["var"])
                return st.under.get(vid, frozenset([vid]))
            elif k == "MCall" and e.get("fn") in ("core::option::Option::<T>::as_mut", "core::option::Option::<T>::as_deref_mut", "core::convert::AsMut::as_mut", "core::borrow::BorrowMut::borrow_mut"):
                e = e["recv"]
            elif k in ("Call", "MCall") and is_streamlike_ty(e.get("ty") or ""):
                # a temporary wrapper (`from_reader(decompress(c, r)?)`): it wraps whatever streams its construction mentions
                from hir import walk
                out = set()
                for n in walk(e):
                    if n["k"] == "Local" and is_streamlike_ty(self.var_types.get(self.canon(n["var"]), "") or n.get("ty") or ""):
                        vid = self.canon(n["var"])
                        out |= st.under.get(vid, frozenset([vid]))
                return frozenset(out)
            else:
                return frozenset()
        return frozenset()

    def root_var(self, expr):
        e = expr
        while e is not None:
            k = e["k"]
            if k in ("Ref", "Try", "Await", "Field"):
                e = e["e"]
            elif k == "Un" and e["op"] == "*":
                e = e["e"]
            elif k == "Index":
                e = e["e"]
            elif k == "Local":
                return self.canon(e["var"])
            else:
                return None
        return None

    def getpos(self, st, key):
        if key not in st.pos:
            st.pos[key] = V("pos0:" + self.var_names.get(key, key))
        return st.pos[key]

    def bump(self, st, keys, direct_key, amount):
        """advance the position of every stream in keys: by `amount` for the directly addressed raw stream, by a fresh
        sigma for streams reached through a wrapper"""
        sig = None
        for k in keys:
            if k == direct_key and amount is not None:
                st.pos[k] = ("bin", "+", self.getpos(st, k), amount)
            else:
                if sig is None:
                    sig = V("sigma:%d" % self.fresh())
                st.pos[k] = ("bin", "+", self.getpos(st, k), sig)
        return sig

    # -- evaluation
    def eval_seq(self, exprs, st):
        """evaluate expressions left to right; returns [(state, [values])]"""
        outs = [(st, [])]
        for e in exprs:
            nxt = []
            for s, vals in outs:
                if s.ctrl is not None:
                    nxt.append((s, vals))
                    continue
                for s2, v in self.eval(e, s):
                    nxt.append((s2, vals + [v]))
            outs = nxt
        return outs

    def eval(self, e, st):
        """returns list of (state, value).  States with ctrl set are leaving a loop iteration."""
        if e is None:
            return [(st, ("unit",))]
        if st.ctrl is not None:
            return [(st, ("unit",))]
        k = e["k"]
        m = getattr(self, "e_" + k, None)
        if m is None:
            return [(st, ("unk", k, e.get("id")))]
        return m(e, st)

    def e_Lit(self, e, st):
        if "int" in e:
            return [(st, C(e["int"]))]
        for key in ("bool", "float", "str", "char"):
            if key in e:
                return [(st, ("lit", key, e[key]))]
        return [(st, ("lit", "other", None))]

    def e_Local(self, e, st):
        v = st.env.get(e["var"])
        if e["var"] in self.whole_alias and _is_ref_ty(self.var_types.get(e["var"], "") or ""):
            # a reference bound to a local object (`&mut self` of a method evaluated in place, `let r = &mut x`) sees the object's current state
            tgt = self.canon(e["var"])
            if tgt != e["var"] and tgt in st.env and not _is_ref_ty(self.var_types.get(tgt, "") or ""):
                v = st.env[tgt]
        if v is None:
            v = V("var:" + e["var"])
        return [(st, v)]

    def e_Path(self, e, st):
        c = e.get("const")
        if c and "int" in c:
            return [(st, C(c["int"]))]
        if c and "float" in c:
            return [(st, ("lit", "float", c["float"]))]
        if c and "bool" in c:
            return [(st, ("lit", "bool", c["bool"]))]
        return [(st, ("call", e.get("def", "?"), (), None))]

    def e_Tup(self, e, st):
        if not e["es"]:
            return [(st, ("unit",))]
        return [(s, ("tup", tuple(v))) for s, v in self.eval_seq(e["es"], st)]

    def e_Array(self, e, st):
        return [(s, ("arr", tuple(v))) for s, v in self.eval_seq(e["es"], st)]

    def e_Repeat(self, e, st):
        return [(s, ("call", "<repeat>", (v, C(e.get("n", -1))), None)) for s, v in self.eval(e["e"], st)]

    def e_Ref(self, e, st):
        return self.eval(e["e"], st)

    def e_Un(self, e, st):
        outs = []
        for s, v in self.eval(e["e"], st):
            if e["op"] == "*":
                outs.append((s, v))
            else:
                if e["op"] == "-" and s.ctrl is None:
                    self.ev(s, "arith", e, op="neg", l=v, r=None, lty=e["e"]["ty"], rty=None, flavour="plain", ty=e["ty"])
                outs.append((s, ("un", e["op"], v)))
        return outs

    def e_Cast(self, e, st):
        outs = []
        for s, v in self.eval(e["e"], st):
            if s.ctrl is None:
                self.ev(s, "cast", e, frm=e["e"]["ty"], to=e["ty"], v=v)
            outs.append((s, ("cast", e["ty"], v, e["e"]["ty"])))
        return outs

    def e_Field(self, e, st):
        return [(s, self.field(v, e["name"])) for s, v in self.eval(e["e"], st)]

    def e_Index(self, e, st):
        outs = []
        for s, vals in self.eval_seq([e["e"], e["i"]], st):
            if s.ctrl is None:
                self.ev(s, "index", e, base=vals[0], idx=vals[1], base_ty=e.get("base_ty"), idx_node=e["i"])
                if _is_full_range(vals[1]):
                    outs.append((s, vals[0]))   # x[0..] / x[..] denote all of x
                else:
                    outs.append((s, ("idx", vals[0], vals[1])))
            else:
                outs.append((s, ("unit",)))
        return outs

    def e_Bin(self, e, st):
        if e["op"] in ("&&", "||"):
            # the right operand is evaluated only when the left one is true (&&) / false (||): remember that while evaluating it
            outs = []
            for s, l in self.eval(e["l"], st):
                if s.ctrl is not None:
                    outs.append((s, ("unit",)))
                    continue
                saved = s.sc
                s.sc = saved + ((l, e["op"] == "&&"),)
                for s2, r in self.eval(e["r"], s):
                    s2.sc = saved
                    outs.append((s2, ("bin", e["op"], l, r)))
            return outs
        outs = []
        for s, vals in self.eval_seq([e["l"], e["r"]], st):
            if s.ctrl is not None:
                outs.append((s, ("unit",)))
                continue
            l, r = vals
            op = e["op"]
            if op in ("+", "-", "*", "/", "%", "<<", ">>") and not e.get("ovl"):
                self.ev(s, "arith", e, op=op, l=l, r=r, lty=e["l"]["ty"], rty=e["r"]["ty"], flavour="plain", ty=e["ty"])
            if op in ("==", "!=", "<", "<=", ">", ">="):
                self.ev(s, "cmp", e, op=op, l=l, r=r, lty=e["l"]["ty"], rty=e["r"]["ty"], ovl=e.get("ovl"))
            outs.append((s, ("bin", op, l, r)))
        return outs

    def e_Assign(self, e, st):
        outs = []
        for s, v in self.eval(e["r"], st):
            if s.ctrl is not None:
                outs.append((s, ("unit",)))
                continue
            outs.extend(self.store(e, e["l"], v, s))
        return outs

    def store(self, node, lhs, v, st):
        """assignment `lhs = v`; evaluates the place's sub-expressions (index) for their events"""
        outs = []
        if lhs["k"] == "Local":
            st.env[lhs["var"]] = v
            self.ev(st, "assign", node, var=lhs["var"], name=lhs["name"], place=None, value=v)
            return [(st, ("unit",))]
        if lhs["k"] == "Un" and lhs.get("op") == "*" and lhs["e"]["k"] == "Local" and lhs["e"]["var"] in st.env and is_int_ty(lhs.get("ty") or ""):
            # `*x = v` through a reference to an integer (the state of a `scan`, a `&mut u64` parameter of a helper evaluated in place): the
            # reference is transparent in values, so the variable now denotes v
            st.env[lhs["e"]["var"]] = v
            self.ev(st, "assign", node, var=lhs["e"]["var"], name=lhs["e"]["name"], place=None, value=v)
            return [(st, ("unit",))]
        # field / index place: evaluate the place for its events, then record the store
        for s, pv in self.eval(lhs, st):
            if s.ctrl is None:
                self.ev(s, "assign", node, var=self.root_var(lhs), name=None, place=pv, value=v, place_node=lhs)
                rv = self.root_var(lhs)
                if rv is not None and rv in s.env:
                    s.vers += 1
                    s.env[rv] = ("mut", s.env[rv], self._fld_tag(lhs, s.vers, v))
            outs.append((s, ("unit",)))
        return outs

    def _fld_tag(self, place, vers, v):
        """version tag of a store: a store to a direct field of a local (`x.f = v`, `(*x).f = v`) remembers which field and what value"""
        if place["k"] == "Field":
            b = place["e"]
            while b is not None and b["k"] == "Un" and b.get("op") == "*":
                b = b["e"]
            if b is not None and b["k"] == "Local":
                return ("fld", place["name"], vers, v)
        return vers

    def e_AssignOp(self, e, st):
        outs = []
        for s, vals in self.eval_seq([e["r"], e["l"]], st):
            if s.ctrl is not None:
                outs.append((s, ("unit",)))
                continue
            r, l = vals
            op = e["op"]
            if op in ("+", "-", "*", "/", "%", "<<", ">>") and not e.get("ovl"):
                self.ev(s, "arith", e, op=op, l=l, r=r, lty=e["l"]["ty"], rty=e["r"]["ty"], flavour="plain", ty=e["l"]["ty"], compound=True)
            nv = ("bin", op, l, r)
            lhs = e["l"]
            if lhs["k"] == "Un" and lhs.get("op") == "*" and lhs["e"]["k"] == "Local" and lhs["e"]["var"] in s.env and is_int_ty(e["l"].get("ty") or ""):
                lhs = lhs["e"]      # `*x += v` for an integer behind a reference held in a local: dereferencing is transparent, so this updates x's value
            if lhs["k"] == "Local":
                s.env[lhs["var"]] = nv
                self.ev(s, "assign", e, var=lhs["var"], name=lhs["name"], place=None, value=nv, compound=op)
            else:
                self.ev(s, "assign", e, var=self.root_var(lhs), name=None, place=l, value=nv, place_node=lhs, compound=op)
                rv = self.root_var(lhs)
                if rv is not None and rv in s.env:
                    s.vers += 1
                    s.env[rv] = ("mut", s.env[rv], s.vers)
            outs.append((s, ("unit",)))
        return outs

    def e_Struct(self, e, st):
        exprs = [f["e"] for f in e["fields"]]
        if e["base"] is not None:
            exprs.append(e["base"])
        outs = []
        for s, vals in self.eval_seq(exprs, st):
            if s.ctrl is not None:
                outs.append((s, ("unit",)))
                continue
            base = vals[len(e["fields"])] if e["base"] is not None else None
            flds = [(f["name"], v) for f, v in zip(e["fields"], vals)]
            # `S { a, ..other }` where `other` is itself a visible struct literal of S (e.g. built by an inlined helper): take its remaining fields
            b = base
            while isinstance(b, tuple) and b and b[0] == "mut":
                b = b[1]
            while isinstance(b, tuple) and b and b[0] == "struct" and b[1] == e.get("adt", "?"):
                have = set(n for n, _ in flds)
                flds += [(n, v) for n, v in b[2] if n not in have]
                base = b[3]
                b = base
                while isinstance(b, tuple) and b and b[0] == "mut":
                    b = b[1]
            t = ("struct", e.get("adt", "?"), tuple(flds), base)
            self.ev(s, "struct", e, adt=e.get("adt", "?"), value=t)
            outs.append((s, t))
        return outs

    def e_Block(self, e, st):
        outs = [(st, ("unit",))]
        for stmt in e["stmts"]:
            nxt = []
            for s, _ in outs:
                if s.ctrl is not None:
                    nxt.append((s, ("unit",)))
                    continue
                nxt.extend(self.stmt(stmt, s))
            outs = nxt
        if e["e"] is not None:
            nxt = []
            for s, _ in outs:
                if s.ctrl is not None:
                    nxt.append((s, ("unit",)))
                    continue
                nxt.extend(self.eval(e["e"], s))
            outs = nxt
        self._check()
        return outs

    def _check(self):
        if len(self.paths) > MAX_PATHS:
            raise PathExplosion(self.fn["path"])

    def stmt(self, stmt, st):
        k = stmt["k"]
        if k in ("Semi", "Expr"):
            outs = self.eval(stmt["e"], st)
            if k == "Semi":
                for s, v in outs:
                    if s.ctrl is None:
                        self.ev(s, "discard", stmt["e"], value=v)
            return [(s, ("unit",)) for s, _ in outs]
        if k == "Let":
            if stmt["init"] is None:
                for var, name in _pat_vars(stmt["pat"]):
                    st.env[var] = V("uninit:" + name)
                    self.var_names[var] = name
                return [(st, ("unit",))]
            outs = []
            for s, v in self.eval(stmt["init"], st):
                if s.ctrl is not None:
                    outs.append((s, ("unit",)))
                    continue
                cm = _ctor_match(v, stmt["pat"]) if stmt["els"] is not None else None
                if stmt["els"] is not None and cm is True:
                    self.ev(s, "decide", stmt, how="letelse", outcome=True, cond=v, pat=stmt["pat"], cond_node=stmt["init"], folded=True)
                elif stmt["els"] is not None and cm is False:
                    self.ev(s, "decide", stmt, how="letelse", outcome=False, cond=v, pat=stmt["pat"], cond_node=stmt["init"], folded=True)
                    for s3, _ in self.eval(stmt["els"], s):
                        if s3.ctrl is not None:
                            outs.append((s3, ("unit",)))
                    continue
                elif stmt["els"] is not None:
                    # refutable: else-branch path diverges
                    s_else = s.fork()
                    self.ev(s_else, "decide", stmt, how="letelse", outcome=False, cond=v, pat=stmt["pat"], cond_node=stmt["init"])
                    for s3, _ in self.eval(stmt["els"], s_else):
                        if s3.ctrl is not None:
                            outs.append((s3, ("unit",)))
                        # a let-else block cannot fall through (type `!`)
                    self.ev(s, "decide", stmt, how="letelse", outcome=True, cond=v, pat=stmt["pat"], cond_node=stmt["init"])
                self.bind(s, stmt["pat"], v, stmt["init"])
                self.ev(s, "let", stmt, pat=stmt["pat"], value=v)
                outs.append((s, ("unit",)))
            return outs
        return [(st, ("unit",))]

    def e_Try(self, e, st):
        outs = []
        for s, v in self.eval(e["e"], st):
            if s.ctrl is not None:
                outs.append((s, v))
                continue
            vv = v
            if isinstance(vv, tuple) and vv and vv[0] == "errprop":
                # the inlined callee already took its error exit on this path
                self.ev(s, "decide", e, how="try", outcome=False, cond=v, cond_node=e["e"])
                self.finish(s, v, e)
                continue
            none_t = ("call", "core::option::Option::None", (), None)
            if isinstance(vv, tuple) and vv and vv[0] == "call" and vv[3] is None and vv[1] == "core::option::Option::None":
                # `None?` in a function returning Option: the function answers None
                self.ev(s, "decide", e, how="try", outcome=False, cond=v, cond_node=e["e"], folded=True)
                self.finish(s, none_t, e)
                continue
            if isinstance(vv, tuple) and vv and vv[0] == "call" and vv[3] is None and vv[1] == "core::option::Option::Some" and len(vv[2]) == 1:
                self.ev(s, "decide", e, how="try", outcome=True, cond=v, cond_node=e["e"], folded=True)
                outs.append((s, vv[2][0]))
                continue
            if (e["e"].get("ty") or "").startswith("core::option::Option<"):
                s_none = s.fork()
                self.ev(s_none, "decide", e, how="tryopt", outcome=False, cond=v, cond_node=e["e"])
                self.finish(s_none, none_t, e)
                self.ev(s, "decide", e, how="tryopt", outcome=True, cond=v, cond_node=e["e"])
                outs.append((s, v))
                continue
            if isinstance(vv, tuple) and vv and vv[0] == "call" and vv[1] == "core::result::Result::Err" and vv[3] is None:
                self.ev(s, "decide", e, how="try", outcome=False, cond=v, cond_node=e["e"])
                self.finish(s, ("errprop", v), e)
                continue
            if isinstance(vv, tuple) and vv and vv[0] == "call" and vv[1] == "core::result::Result::Ok" and len(vv[2]) == 1 and vv[3] is None and self.frames_seen_ok(e):
                self.ev(s, "decide", e, how="try", outcome=True, cond=v, cond_node=e["e"])
                outs.append((s, vv[2][0]))
                continue
            # the inner expression may be a local binding of a Result; only a syntactic Ok(..) can never fail
            s_err = s.fork()
            self.ev(s_err, "decide", e, how="try", outcome=False, cond=v, cond_node=e["e"])
            self.finish(s_err, ("errprop", v), e)
            self.ev(s, "decide", e, how="try", outcome=True, cond=v, cond_node=e["e"])
            if isinstance(v, tuple) and v and v[0] == "call" and v[1] in ("core::result::Result::Ok", "core::option::Option::Some") and len(v[2]) == 1:
                v = v[2][0]
            outs.append((s, v))
        return outs

    def e_Await(self, e, st):
        outs = []
        for s, v in self.eval(e["e"], st):
            if s.ctrl is None:
                self.ev(s, "await", e, value=v)
            outs.append((s, v))
        return outs

    def e_Async(self, e, st):
        return self.eval(e["body"], st)

    def e_Closure(self, e, st):
        # evaluate the body out of line for its events; control flow inside does not affect the path
        cid = e.get("id")
        if not hasattr(self, "clos_nodes"):
            self.clos_nodes = {}
        self.clos_nodes[cid] = e
        sub = st.fork()
        sub.events = []
        saved = self.cur_clos
        self.cur_clos = cid
        rets = []
        saved_paths = self.paths
        self.paths = []
        try:
            for i, p in enumerate(e["params"]):
                self.bind(sub, p, V("clos%s:%s" % (cid, fmt_pat(p))))
            outs = self.eval(e["body"], sub)
            streams = []
            per_path = []
            for s, v in outs:
                streams.append(s.events)
                rets.append(v)
                per_path.append((v, [x for x in s.events if x.kind == "decide"]))
            for p in self.paths:
                streams.append(p.events)
                rets.append(p.value)
                per_path.append((p.value, [x for x in p.events if x.kind == "decide"]))
            if not hasattr(self, "clos_paths"):
                self.clos_paths = {}
            self.clos_paths[cid] = per_path
        finally:
            self.paths = saved_paths
            self.cur_clos = saved
        seen = set()
        for evs in streams:
            for x in evs:
                if id(x) not in seen:
                    seen.add(id(x))
                    x.loops = st.loops
                    st.events.append(x)
        return [(st, ("clos", cid, tuple(rets)))]

    def e_Ret(self, e, st):
        for s, v in self.eval(e["e"], st):
            if s.ctrl is None:
                self.finish(s, v, e)
        return []

    def e_Break(self, e, st):
        if e.get("e") is not None:
            # `break value`: the loop expression evaluates to it
            outs = []
            for s, v in self.eval(e["e"], st):
                if s.ctrl is None:
                    s.ctrl = "break"
                    s.breakval = v
                outs.append((s, ("unit",)))
            return outs
        st.ctrl = "break"
        return [(st, ("unit",))]

    def e_Continue(self, e, st):
        st.ctrl = "continue"
        return [(st, ("unit",))]

    def e_LetCond(self, e, st):
        # only reached when a `let` appears outside an if-condition position (let chains are split in e_If)
        return [(s, ("lit", "bool", None)) for s, v in self.eval(e["e"], st)]

    def cond_paths(self, c, st):
        """evaluate a condition, splitting `&&` chains that contain `let`; returns [(state, outcome)]"""
        if c["k"] == "LetCond":
            outs = []
            for s, v in self.eval(c["e"], st):
                if s.ctrl is not None:
                    continue
                cm = _ctor_match(v, c["pat"])
                if cm is True:
                    self.ev(s, "decide", c, how="iflet", outcome=True, cond=v, pat=c["pat"], cond_node=c["e"], folded=True)
                    self.bind(s, c["pat"], v, c["e"])
                    outs.append((s, True))
                    continue
                if cm is False:
                    self.ev(s, "decide", c, how="iflet", outcome=False, cond=v, pat=c["pat"], cond_node=c["e"], folded=True)
                    outs.append((s, False))
                    continue
                s_no = s.fork()
                self.ev(s_no, "decide", c, how="iflet", outcome=False, cond=v, pat=c["pat"], cond_node=c["e"])
                outs.append((s_no, False))
                self.ev(s, "decide", c, how="iflet", outcome=True, cond=v, pat=c["pat"], cond_node=c["e"])
                self.bind(s, c["pat"], v, c["e"])
                outs.append((s, True))
            return outs
        if c["k"] == "Bin" and c["op"] == "&&" and (_has_let(c["l"]) or _has_let(c["r"])):
            outs = []
            for s, o in self.cond_paths(c["l"], st):
                if not o:
                    outs.append((s, False))
                else:
                    outs.extend(self.cond_paths(c["r"], s))
            return outs
        outs = []
        for s, v in self.eval(c, st):
            if s.ctrl is not None:
                continue
            known = _const_truth(v)
            if known is not None:
                # a comparison of two constants: only one branch is feasible
                self.ev(s, "decide", c, how="if", outcome=known, cond=v, cond_node=c, folded=True)
                outs.append((s, known))
                continue
            s_no = s.fork()
            self.ev(s_no, "decide", c, how="if", outcome=False, cond=v, cond_node=c)
            outs.append((s_no, False))
            self.ev(s, "decide", c, how="if", outcome=True, cond=v, cond_node=c)
            outs.append((s, True))
        return outs

    def e_If(self, e, st):
        outs = []
        for s, o in self.cond_paths(e["c"], st):
            if o:
                outs.extend(self.eval(e["t"], s))
            elif e["e"] is not None:
                outs.extend(self.eval(e["e"], s))
            else:
                outs.append((s, ("unit",)))
        self._check()
        return outs

    def e_Match(self, e, st):
        outs = []
        for s, v in self.eval(e["e"], st):
            if s.ctrl is not None:
                outs.append((s, v))
                continue
            arms = list(enumerate(e["arms"]))
            # a visible constructor value selects its arm
            # (a guarded arm is never certain, but a pattern that cannot match rules it out whatever the guard says)
            verdicts = [_ctor_match(v, a["pat"]) if a["guard"] is None else (False if _ctor_match(v, a["pat"]) is False else None) for _, a in arms]
            if True in verdicts:
                # the first arm that certainly matches ends the search; earlier arms that may match stay feasible
                t_ = verdicts.index(True)
                arms = [x for x, vd in list(zip(arms, verdicts))[:t_] if vd is not False] + [arms[t_]]
            else:
                arms = [x for x, vd in zip(arms, verdicts) if vd is not False]
            n = len(arms)
            fell = []      # states whose pattern matched an earlier arm but whose guard was false: they try the later arms, knowing that
            always = False  # an earlier arm's pattern matches everything (`x if cond => ..`): later arms are reached only through its failed guard
            for j, (i, arm) in enumerate(arms):
                starts = ([] if always else [(s.fork() if j < n - 1 else s, False)]) + [(sf.fork(), True) for sf in fell]
                pk = arm["pat"]
                while pk is not None and pk.get("k") in ("RefPat",):
                    pk = pk.get("pat")
                if pk is not None and (pk.get("k") == "Wild" or (pk.get("k") == "Bind" and pk.get("sub") is None)):
                    always = True
                fell_next = []
                for sa, was_fell in starts:
                    # fell=False: no earlier arm's pattern matched (guards never ran); fell=True: an earlier pattern matched and its guard was false
                    self.ev(sa, "decide", e, how="match", outcome=i, cond=v, pat=arm["pat"], cond_node=e["e"], arm=arm, fell=was_fell)
                    self.bind(sa, arm["pat"], v, e["e"])
                    if arm["guard"] is not None:
                        for sg, o in self.cond_paths(arm["guard"], sa):
                            if o:
                                outs.extend(self.eval(arm["body"], sg))
                            else:
                                fell_next.append(sg)
                    else:
                        outs.extend(self.eval(arm["body"], sa))
                fell = (fell + fell_next)[:8]
        self._check()
        return outs

    # -- loops
    def loop_common(self, e, st, pre_bind, cond=None, has_zero=True, iter_term=None, body_hook=None):
        lid = e.get("id")
        body = e["body"]
        assigned, mutated, mutated_streams = _assigned_in(body, self)
        outs = []
        if has_zero:
            z = st.fork()
            self.ev(z, "loop", e, what="skip", lid=lid)
            outs.append((z, ("unit",)))
        if cond is not None:
            # a `while` whose condition is false at once: the state is exactly the one before the loop (nothing is havoc'd)
            for sc, o in self.cond_paths(cond, st.fork()):
                if o or sc.ctrl is not None:
                    continue
                self.ev(sc, "loop", e, what="skip", lid=lid)
                outs.append((sc, ("unit",)))
        s = st
        self.ev(s, "loop", e, what="enter", lid=lid, iter=iter_term)
        # havoc
        for var in assigned:
            if var in s.env:
                atom = V("loop%s:%s" % (lid, self.var_names.get(var, var)))
                self.havoc_src.setdefault(atom, set()).add(s.env[var])
                self.havoc_init.setdefault(atom, set()).add(s.env[var])
                s.env[var] = atom
        # variables that are only mutated in place (field/index stores, &mut borrows) keep their structure but get a new version
        for var in mutated - assigned:
            if var in s.env and not _is_ref_ty(self.var_types.get(var, "")):
                s.env[var] = ("mut", s.env[var], "loop%s" % lid)
        for var in mutated_streams:
            for key in s.under.get(var, frozenset([var])):
                s.pos[key] = V("looppos%s:%s" % (lid, self.var_names.get(key, key)))
        s.loops = s.loops + (lid,)
        starts = [s]
        if cond is not None:
            starts = []
            for sc, o in self.cond_paths(cond, s):
                if o:
                    starts.append(sc)
                # (condition false on the havoc'd state = the loop is left after k ≥ 1 iterations: that exit is produced below, from the state the
                #  last iteration left behind; k = 0 was produced above from the exact entry state)
        for s0 in starts:
            if pre_bind is not None:
                pre_bind(s0)
            for s2, bv_ in self.eval(body, s0):
                if body_hook is not None and s2.ctrl is None:
                    body_hook(s2, bv_)
                # record what the havoc'd variables were assigned in this iteration (dependence sources)
                for var in assigned:
                    atom = V("loop%s:%s" % (lid, self.var_names.get(var, var)))
                    if var in s2.env and s2.env[var] != atom:
                        self.havoc_src.setdefault(atom, set()).add(s2.env[var])
                if s2.ctrl == "ret":
                    continue   # returned out of an inlined callee from inside the loop: already recorded
                if cond is not None and (s2.ctrl or "end") in ("end", "continue"):
                    # a `while` is left only when its condition is found false: evaluate it on the state this iteration produced (the outcome
                    # "true" goes round again, which the havoc'd start state already covers)
                    how = s2.ctrl or "end"
                    s2.ctrl = None
                    for sc, o in self.cond_paths(cond, s2):
                        if o or sc.ctrl is not None:
                            continue
                        sc.loops = sc.loops[:-1]
                        self.ev(sc, "loop", e, what="exit", lid=lid, how=how)
                        outs.append((sc, ("unit",)))
                    continue
                s2.loops = s2.loops[:-1]
                how = s2.ctrl or "end"
                s2.ctrl = None
                self.ev(s2, "loop", e, what="exit", lid=lid, how=how)
                if e["k"] == "Loop" and how != "break":
                    # `loop {}` only leaves through break/return: an iteration that ends normally goes round again
                    continue
                bv = getattr(s2, "breakval", None)
                if how == "break" and bv is not None:
                    s2.breakval = None
                    outs.append((s2, bv))
                else:
                    outs.append((s2, ("unit",)))
        self._check()
        return outs

    def e_For(self, e, st):
        outs = []
        for s, itv in self.eval(e["iter"], st):
            if s.ctrl is not None:
                outs.append((s, itv))
                continue
            if e.get("pat") is None:
                outs.append((s, ("unit",)))
                continue
            lid = e.get("id")

            def pre(s0, itv=itv, lid=lid):
                self.bind(s0, e["pat"], self.element_of(s0, itv, lid), None)     # an element is not an alias of the collection it comes from
            outs.extend(self.loop_common(e, s, pre, iter_term=itv))
        return outs

    def element_of(self, st, itv, lid):
        """the value a `for` pattern is bound to; `base.map(|x| f(x))` yields f(element of base) when the closure is a literal that does not branch"""
        v = itv
        while isinstance(v, tuple) and v and v[0] == "mut":
            v = v[1]
        if isinstance(v, tuple) and v and v[0] == "call" and v[1].endswith(("::map", "::filter_map")) and len(v[2]) == 2 and isinstance(v[2][1], tuple) and v[2][1][0] == "clos":
            node = getattr(self, "clos_nodes", {}).get(v[2][1][1])
            if node is not None and len(node["params"]) == 1:
                inner = self.element_of(st, v[2][0], lid)
                sub = st.fork()
                saved_paths = self.paths
                self.paths = []
                try:
                    self.bind(sub, node["params"][0], inner, None)
                    outs = [(s, val) for s, val in self.eval(node["body"], sub) if s.ctrl is None]
                    clean = not self.paths
                finally:
                    self.paths = saved_paths
                if clean and len(outs) == 1:
                    r_ = outs[0][1]
                    if v[1].endswith("::filter_map"):
                        # the element is the payload of the closure's Some(..) (None elements are skipped; Option modelled at payload level)
                        if isinstance(r_, tuple) and r_ and r_[0] == "call" and r_[1] == "core::option::Option::Some" and len(r_[2]) == 1 and r_[3] is None:
                            r_ = r_[2][0]
                        elif isinstance(r_, tuple) and r_ and r_[0] == "call" and r_[1] == "core::option::Option::None":
                            return ("elem", itv, lid)
                    return r_
        if isinstance(v, tuple) and v and v[0] == "call" and v[1].endswith("Iterator::scan") and len(v[2]) == 3 and isinstance(v[2][2], tuple) and v[2][2][0] == "clos":
            # `base.scan(init, |state, x| { ..; Some(y) })` driven by a `for`: y is computed from the element of base and a state carried from
            # one iteration to the next (a loop variable like any other: its sources are the initial value and what the closure leaves in it)
            node = getattr(self, "clos_nodes", {}).get(v[2][2][1])
            if node is not None and len(node["params"]) == 2 and node["params"][0].get("k") == "Bind":
                inner = self.element_of(st, v[2][0], lid)
                atom = V("loop%s:%s" % (lid, node["params"][0].get("name") or "scan_state"))
                self.havoc_src.setdefault(atom, set()).add(v[2][1])
                sub = st.fork()
                saved_paths = self.paths
                self.paths = []
                try:
                    self.bind(sub, node["params"][0], atom, None)
                    self.bind(sub, node["params"][1], inner, None)
                    outs = [(s_, val) for s_, val in self.eval(node["body"], sub) if s_.ctrl is None]
                    clean = not self.paths
                finally:
                    self.paths = saved_paths
                if clean and len(outs) == 1:
                    s_, r_ = outs[0]
                    stv = s_.env.get(node["params"][0]["var"])
                    if stv is not None and stv != atom:
                        self.havoc_src[atom].add(stv)
                    if isinstance(r_, tuple) and r_ and r_[0] == "call" and r_[1] == "core::option::Option::Some" and len(r_[2]) == 1 and r_[3] is None:
                        return r_[2][0]
        if isinstance(v, tuple) and v and v[0] == "call" and v[1].endswith("::zip") and len(v[2]) == 2:
            return ("tup", (self.element_of(st, v[2][0], lid), self.element_of(st, v[2][1], lid)))
        if isinstance(v, tuple) and v and v[0] == "call" and v[1].endswith("::chain") and len(v[2]) == 2:
            first = v[2][0]
            while isinstance(first, tuple) and first and first[0] == "mut":
                first = first[1]
            if isinstance(first, tuple) and first[0] == "call" and first[1].endswith("::once") and len(first[2]) == 1:
                # `once(c).chain(it)`: c on the first iteration, afterwards what `it` yielded one iteration earlier
                return ("shift", first[2][0], self.element_of(st, v[2][1], lid))
        return ("elem", itv, lid)

    def e_While(self, e, st):
        return self.loop_common(e, st, None, cond=e["c"], has_zero=False)

    def e_Loop(self, e, st):
        return self.loop_common(e, st, None, has_zero=False)

    def frames_seen_ok(self, e):
        """a `?` applied directly to an inlined callee's Ok(..) value cannot fail; a hand-written `Ok(x)?` is left alone (never happens)"""
        inner = e["e"]
        while inner is not None and inner["k"] in ("Await",):
            inner = inner["e"]
        return inner is not None and inner["k"] in ("Call", "MCall") and (inner.get("fn") in getattr(self, "_inlinable", ()) or
                                                                          (inner.get("fn") or "").endswith(("Option::<T>::ok_or", "Option::<T>::ok_or_else")))

    def _local_factory(self, fn):
        """a local function that hands out a boxed codec/stream around the stream it is given (the codec factories, wherever they live)"""
        g = self.facts.fn(fn)
        return g is not None and "Box<dyn" in (g.get("ret") or "") and any(w in (g.get("ret") or "") for w in ("Read", "Write"))

    def _local_conversion(self, e, fn):
        """`T::from(x)` whose impl is a local one for a helper type of the crate's own (a bundle of header fields, a pair struct): the call is
        addressed to that impl so that it can be evaluated in place like any private helper (the policy decides; conversions of the domain
        types the rules speak about keep their identity)"""
        if fn == "core::convert::From::from":
            r = e.get("resolved") or ""
            if r.startswith("<") and self.facts.fn(r) is not None:
                return r
        return fn

    def can_inline(self, fn):
        if len(self.frames) >= 3 or fn in self.frames or fn == self.fn["path"]:
            return False
        pol = self.no_inline
        if pol is None:
            return False
        return pol(fn)

    def inline_call(self, e, st, fn, arg_nodes, vals):
        """evaluate a small effect-free private helper in place: its decisions, arithmetic and comparisons become part of the caller's path and
        its return term replaces the opaque call result.  Returns [(state, value)] or None when inlining was abandoned."""
        callee = self.facts.fn(fn)
        if callee is None or callee["body"] is None or len(callee["params"]) != len(vals):
            return None
        trial = st.fork()
        saved_paths, saved_ret = self.paths, getattr(self, "_ret_states", [])
        self._ret_states = []
        self.frames.append(fn)
        try:
            for prm, node, v in zip(callee["params"], arg_nodes, vals):
                self.bind(trial, prm["pat"], v, node)
            outs = self.eval(callee["body"], trial)
            res = []
            for s, v in outs:
                if s.ctrl is None:
                    res.append((s, v))
            for s in self._ret_states:
                v = s.retval
                s.ctrl = None
                s.retval = None
                res.append((s, v))
        except PathExplosion:
            res = None
        finally:
            self.frames.pop()
            self._ret_states = saved_ret
            self.paths = saved_paths
        if res is None or len(res) == 0 or len(res) > 64:
            return None
        if not hasattr(self, "_inlinable"):
            self._inlinable = set()
        self._inlinable.add(fn)
        return res

    # -- calls
    def e_Call(self, e, st):
        exprs = ([e["f"]] if "f" in e else []) + e["args"]
        outs = []
        for s, vals in self.eval_seq(exprs, st):
            if s.ctrl is not None:
                outs.append((s, ("unit",)))
                continue
            if "f" in e:
                vals = vals[1:]
            fn = e.get("fn") or ("<indirect:%s>" % e.get("fvar", "?"))
            fn = self._local_conversion(e, fn)
            if self.can_inline(fn):
                res = self.inline_call(e, s, fn, e["args"], vals)
                if res is not None:
                    for s2, v2 in res:
                        self.ev(s2, "call", e, fn=fn, resolved=e.get("resolved"), args=tuple(vals), arg_nodes=e["args"], recv=None, ret=v2, effects=(),
                                tys=[a["ty"] for a in e["args"]], targs=e.get("targs"), pos_before={}, pos_after={}, argkeys=[frozenset() for _ in e["args"]], direct=None, inlined=True)
                        outs.append((s2, v2))
                    continue
            outs.append((s, self.do_call(e, s, fn, None, e["args"], vals)))
        return outs

    def e_MCall(self, e, st):
        fn0 = e.get("fn") or ""
        if fn0.endswith(("::try_for_each", "::for_each")) and len(e["args"]) == 1 and e["args"][0]["k"] == "Closure" and len(e["args"][0]["params"]) == 1:
            # `iter.for_each(|x| body)` / `iter.try_for_each(|x| body)?` is a loop over the iterator's elements
            clos = e["args"][0]
            outs = []
            for s, itv in self.eval(e["recv"], st):
                if s.ctrl is not None:
                    outs.append((s, ("unit",)))
                    continue
                fake = {"k": "For", "id": clos.get("id"), "loc": e.get("loc"), "body": clos["body"], "pat": clos["params"][0], "iter": e["recv"], "ty": "()"}
                lid = fake["id"]

                def pre(s0, itv=itv, lid=lid, fake=fake):
                    self.bind(s0, fake["pat"], self.element_of(s0, itv, lid), None)
                for s2, _ in self.loop_common(fake, s, pre, iter_term=itv):
                    outs.append((s2, ("call", "core::result::Result::Ok", (("unit",),), None) if fn0.endswith("try_for_each") else ("unit",)))
            return outs
        rc = e.get("recv") or {}
        if fn0.endswith("Iterator::collect") and not e["args"] and rc.get("k") == "MCall" and (rc.get("fn") or "").endswith("Iterator::map") and len(rc.get("args") or []) == 1 \
                and rc["args"][0]["k"] == "Closure" and len(rc["args"][0]["params"]) == 1 and "Vec<" in (e.get("ty") or ""):
            # `iter.map(|x| body).collect::<Vec<_>>()` / `…collect::<Result<Vec<_>, _>>()`: a loop over the iterator that pushes what the closure yields
            # (for the Result form the payload of its Ok; a `?` inside the closure leaves the loop with the error, which the caller's `?` hands on)
            clos = rc["args"][0]
            is_result = (e.get("ty") or "").startswith("core::result::Result<")
            outs = []
            PUSH = "alloc::vec::Vec::<T, A>::push"
            for s, itv in self.eval(rc["recv"], st):
                if s.ctrl is not None:
                    outs.append((s, ("unit",)))
                    continue
                fake = {"k": "For", "id": clos.get("id"), "loc": e.get("loc"), "body": clos["body"], "pat": clos["params"][0], "iter": rc["recv"], "ty": "()"}
                lid = fake["id"]
                vecvar = "collect:%s" % e.get("id")
                s.env[vecvar] = ("call", "alloc::vec::Vec::<T>::new", (), self.fresh())
                self.var_types[vecvar] = "alloc::vec::Vec<T>"
                self.var_names[vecvar] = "collected"

                def pre(s0, itv=itv, lid=lid, fake=fake, vecvar=vecvar):
                    s0.env[vecvar] = ("mut", s0.env[vecvar], "loop%s" % lid)
                    self.bind(s0, fake["pat"], self.element_of(s0, itv, lid), None)

                def hook(s2, bv, vecvar=vecvar, node=e):
                    pay = bv
                    t_ = bv
                    while isinstance(t_, tuple) and t_ and t_[0] == "mut":
                        t_ = t_[1]
                    if is_result and isinstance(t_, tuple) and t_ and t_[0] == "call" and t_[3] is None and t_[1] == "core::result::Result::Ok" and len(t_[2]) == 1:
                        pay = t_[2][0]
                    vec_now = s2.env[vecvar]
                    self.ev(s2, "call", node, fn=PUSH, resolved=None, args=(vec_now, pay), arg_nodes=[node, node], recv=None,
                            ret=("unit",), effects=(), tys=["&mut alloc::vec::Vec<T>", ""], targs=None, pos_before={}, pos_after={}, argkeys=[frozenset(), frozenset()], direct=None)
                    s2.vers += 1
                    s2.env[vecvar] = ("mut", vec_now, s2.vers)
                for s2, _ in self.loop_common(fake, s, pre, iter_term=itv, body_hook=hook):
                    v_ = s2.env.get(vecvar)
                    outs.append((s2, ("call", "core::result::Result::Ok", (v_,), None) if is_result else v_))
            return outs
        exprs = [e["recv"]] + e["args"]
        outs = []
        for s, vals in self.eval_seq(exprs, st):
            if s.ctrl is not None:
                outs.append((s, ("unit",)))
                continue
            fn = e.get("fn") or ("<method:%s>" % e["name"])
            if fn in ("core::option::Option::<T>::map", "core::option::Option::<T>::and_then") and len(vals) == 2 and isinstance(vals[1], tuple) and vals[1] and vals[1][0] == "clos" \
                    and isinstance(vals[0], tuple) and vals[0] and vals[0][0] == "bin" and vals[0][1] in ("+", "-", "*") and (e["recv"].get("ty") or "").startswith("core::option::Option<"):
                # `a.checked_op(b).map(f)`: f runs only when the arithmetic succeeded — both outcomes are explored, each knowing which one it is
                node = getattr(self, "clos_nodes", {}).get(vals[1][1])
                if node is not None and len(node["params"]) == 1:
                    s.events = [x for x in s.events if x.clos != vals[1][1]]
                    s_none = s.fork()
                    self.ev(s_none, "decide", e, how="tryopt", outcome=False, cond=vals[0], cond_node=e["recv"])
                    outs.append((s_none, ("call", "core::option::Option::None", (), None)))
                    self.ev(s, "decide", e, how="tryopt", outcome=True, cond=vals[0], cond_node=e["recv"])
                    self.bind(s, node["params"][0], vals[0], e["recv"])
                    for s3, v3 in self.eval(node["body"], s):
                        if s3.ctrl is None:
                            outs.append((s3, v3))
                    continue
            if fn in MAP_LIKE and len(vals) == 2 and isinstance(vals[1], tuple) and vals[1] and vals[1][0] == "call" and not vals[1][2] and vals[1][3] is None \
                    and self.facts.fn(vals[1][1]) is not None and len(self.facts.fn(vals[1][1])["params"]) == 1 and self.can_inline(vals[1][1]):
                # `r.and_then(Self::f)` with a small local f: f's own outcomes become outcomes of this call (the payload-level model of the receiver)
                v0_ = vals[0]
                while isinstance(v0_, tuple) and v0_ and v0_[0] == "mut":
                    v0_ = v0_[1]
                vis_ = isinstance(v0_, tuple) and v0_ and v0_[0] == "call" and v0_[3] is None
                if not (vis_ and v0_[1] in ("core::option::Option::None", "core::result::Result::Err")):
                    some_ = vis_ and v0_[1] in ("core::option::Option::Some", "core::result::Result::Ok") and len(v0_[2]) == 1
                    res_ = self.inline_call(e, s, vals[1][1], [e["recv"]], [v0_[2][0] if some_ else vals[0]])
                    if res_:
                        for s2, r_ in res_:
                            self.ev(s2, "call", e, fn=vals[1][1], resolved=None, args=(v0_[2][0] if some_ else vals[0],), arg_nodes=[e["recv"]], recv=None, ret=r_, effects=(),
                                    tys=[e["recv"].get("ty")], targs=None, pos_before={}, pos_after={}, argkeys=[frozenset()], direct=None, inlined=True)
                            if some_ and fn.endswith("::map"):
                                r_ = ("call", v0_[1], (r_,), None)
                            outs.append((s2, r_))
                        continue
            if fn.endswith(("Iterator::find", "Iterator::find_map")) and len(vals) == 2 and isinstance(vals[1], tuple) and vals[1] and vals[1][0] == "clos":
                src_ = vals[0]
                while isinstance(src_, tuple) and src_ and src_[0] == "mut":
                    src_ = src_[1]
                fnode = getattr(self, "clos_nodes", {}).get(vals[1][1])
                if isinstance(src_, tuple) and src_ and src_[0] == "call" and src_[1].endswith("Iterator::scan") and len(src_[2]) == 3 and isinstance(src_[2][2], tuple) and src_[2][2][0] == "clos" \
                        and fnode is not None and len(fnode["params"]) == 1:
                    snode = getattr(self, "clos_nodes", {}).get(src_[2][2][1])
                    if snode is not None and len(snode["params"]) == 2 and snode["params"][0].get("k") == "Bind":
                        # `base.scan(init, |st, x| { ..; Some(y) }).find(|y| p(y))`: a loop over base with a carried state; the first y with p(y) is the answer
                        base_, init_ = src_[2][0], src_[2][1]
                        lid = e.get("id")
                        none_t = ("call", "core::option::Option::None", (), None)
                        s.events = [x for x in s.events if x.clos not in (vals[1][1], src_[2][2][1])]
                        z_ = s.fork()
                        self.ev(z_, "loop", e, what="skip", lid=lid)
                        outs.append((z_, none_t))
                        self.ev(s, "loop", e, what="enter", lid=lid, iter=base_)
                        atom = V("loop%s:scan_state" % lid)
                        self.havoc_src.setdefault(atom, set()).add(init_)
                        s.loops = s.loops + (lid,)
                        self.bind(s, snode["params"][0], atom, None)
                        self.bind(s, snode["params"][1], self.element_of(s, base_, lid), None)
                        stvar = snode["params"][0]["var"]
                        for s2, y in self.eval(snode["body"], s):
                            if s2.ctrl is not None:
                                continue
                            if s2.env.get(stvar) != atom:
                                self.havoc_src[atom].add(s2.env.get(stvar))
                            yy = y
                            if isinstance(yy, tuple) and yy and yy[0] == "call" and yy[3] is None and yy[1] == "core::option::Option::None":
                                s2.loops = s2.loops[:-1]
                                self.ev(s2, "loop", e, what="exit", lid=lid, how="end")
                                outs.append((s2, none_t))
                                continue
                            if isinstance(yy, tuple) and yy and yy[0] == "call" and yy[3] is None and yy[1] == "core::option::Option::Some" and len(yy[2]) == 1:
                                yy = yy[2][0]
                            self.bind(s2, fnode["params"][0], yy, None)
                            for s3, t in self.eval(fnode["body"], s2):
                                if s3.ctrl is not None:
                                    continue
                                if fn.endswith("::find_map"):
                                    # the closure answers Some(v) (the search stops with v) or None (it goes on); its own decisions are on the path
                                    tt = t
                                    while isinstance(tt, tuple) and tt and tt[0] == "mut":
                                        tt = tt[1]
                                    vis = isinstance(tt, tuple) and tt and tt[0] == "call" and tt[3] is None
                                    if vis and tt[1] == "core::option::Option::Some" and len(tt[2]) == 1:
                                        s3.loops = s3.loops[:-1]
                                        self.ev(s3, "loop", e, what="exit", lid=lid, how="break")
                                        outs.append((s3, tt))
                                    elif vis and tt[1] == "core::option::Option::None":
                                        s3.loops = s3.loops[:-1]
                                        self.ev(s3, "loop", e, what="exit", lid=lid, how="end")
                                        outs.append((s3, none_t))
                                    else:
                                        sb = s3.fork()
                                        sb.loops = sb.loops[:-1]
                                        self.ev(sb, "loop", e, what="exit", lid=lid, how="end")
                                        outs.append((sb, none_t))
                                        s3.loops = s3.loops[:-1]
                                        self.ev(s3, "loop", e, what="exit", lid=lid, how="break")
                                        outs.append((s3, t))
                                    continue
                                known = _const_truth(t)
                                for outcome in ((known,) if known is not None else (False, True)):
                                    sb = s3.fork() if (known is None and outcome is False) else s3
                                    self.ev(sb, "decide", e, how="if", outcome=outcome, cond=t, cond_node=e["args"][0], folded=known is not None)
                                    sb.loops = sb.loops[:-1]
                                    self.ev(sb, "loop", e, what="exit", lid=lid, how="break" if outcome else "end")
                                    outs.append((sb, ("call", "core::option::Option::Some", (yy,), None) if outcome else none_t))
                        continue
            if fn.startswith("std::collections::hash::map::Entry::") and fn.endswith("::or_insert_with") and len(vals) == 2 and isinstance(vals[1], tuple) and vals[1] and vals[1][0] == "clos":
                # `map.entry(k).or_insert_with(f)`: occupied → the stored value; vacant → f() is inserted and handed back
                node = getattr(self, "clos_nodes", {}).get(vals[1][1])
                if node is not None and not node["params"]:
                    s.events = [x for x in s.events if x.clos != vals[1][1]]
                    s_hit = s.fork()
                    self.ev(s_hit, "decide", e, how="entry", outcome=True, cond=vals[0], cond_node=e["recv"])
                    outs.append((s_hit, ("call", "std::collections::hash::map::OccupiedEntry::<'a, K, V, A>::into_mut", (vals[0],), None)))
                    self.ev(s, "decide", e, how="entry", outcome=False, cond=vals[0], cond_node=e["recv"])
                    for s3, v3 in self.eval(node["body"], s):
                        if s3.ctrl is None:
                            self.ev(s3, "call", e, fn="std::collections::hash::map::VacantEntry::<'a, K, V, A>::insert", resolved=None, args=(vals[0], v3), arg_nodes=[e["recv"], e["args"][0]],
                                    recv=e["recv"], ret=v3, effects=(), tys=["", ""], targs=None, pos_before={}, pos_after={}, argkeys=[frozenset(), frozenset()], direct=None)
                            outs.append((s3, v3))
                    continue
            if fn == "core::iter::traits::collect::Extend::extend" and len(vals) == 2 and "hash::map::HashMap" in (e.get("resolved") or "") and "Extend<(K, V)>" in (e.get("resolved") or ""):
                # `map.extend(iter)` is `for (k, v) in iter { map.insert(k, v); }`
                lid = e.get("id")
                itv = vals[1]
                self.ev(s, "loop", e, what="enter", lid=lid, iter=itv)
                s.loops = s.loops + (lid,)
                elem = self.element_of(s, itv, lid)
                k_, v_ = self.proj(elem, 0), self.proj(elem, 1)
                self.ev(s, "call", e, fn="std::collections::hash::map::HashMap::<K, V, S, A>::insert", resolved=None, args=(vals[0], k_, v_), arg_nodes=[e["recv"], e["args"][0], e["args"][0]],
                        recv=e["recv"], ret=("call", "std::collections::hash::map::HashMap::<K, V, S, A>::insert", (vals[0], k_, v_), self.fresh()), effects=(), tys=[e["recv"]["ty"], "", ""],
                        targs=None, pos_before={}, pos_after={}, argkeys=[frozenset(), frozenset(), frozenset()], direct=None)
                s.loops = s.loops[:-1]
                self.ev(s, "loop", e, what="exit", lid=lid, how="end")
                rv = self.root_var(e["recv"])
                if rv is not None and rv in s.env and not _is_ref_ty(self.var_types.get(rv, "")):
                    s.vers += 1
                    s.env[rv] = ("mut", s.env[rv], s.vers)
                outs.append((s, ("unit",)))
                continue
            if fn == "core::bool::<impl bool>::then_some" and len(vals) == 2:
                # `c.then_some(x)` is `if c { Some(x) } else { None }` (the argument is evaluated either way)
                known = _const_truth(vals[0])
                for outcome in ((known,) if known is not None else (False, True)):
                    sb = s.fork() if (known is None and outcome is False) else s
                    self.ev(sb, "decide", e, how="if", outcome=outcome, cond=vals[0], cond_node=e["recv"], folded=known is not None)
                    outs.append((sb, ("call", "core::option::Option::Some", (vals[1],), None) if outcome else ("call", "core::option::Option::None", (), None)))
                continue
            if fn == "core::option::Option::<T>::filter" and len(vals) == 2 and isinstance(vals[1], tuple) and vals[1]:
                # `o.filter(p)` keeps the payload when p(&payload) holds, else None (Option modelled at payload level)
                pred = vals[1]
                pay = vals[0]
                if isinstance(pay, tuple) and pay and pay[0] == "call" and pay[1] == "core::option::Option::Some" and pay[3] is None and len(pay[2]) == 1:
                    pay = pay[2][0]
                results = None
                if pred[0] == "clos":
                    node = getattr(self, "clos_nodes", {}).get(pred[1])
                    if node is not None and len(node["params"]) == 1:
                        s.events = [x for x in s.events if x.clos != pred[1]]
                        sub = s
                        self.bind(sub, node["params"][0], pay, e["recv"])
                        results = [(s3, v3) for s3, v3 in self.eval(node["body"], sub) if s3.ctrl is None]
                elif pred[0] == "call" and not pred[2] and pred[3] is None and self.can_inline(pred[1]):
                    results = self.inline_call(e, s, pred[1], [e["recv"]], [pay])
                if results:
                    for s3, truth in results:
                        known = _const_truth(truth)
                        for outcome in ((known,) if known is not None else (False, True)):
                            sb = s3.fork() if (known is None and outcome is False) else s3
                            self.ev(sb, "decide", e, how="if", outcome=outcome, cond=truth, cond_node=e["args"][0], folded=known is not None)
                            outs.append((sb, vals[0] if outcome else ("call", "core::option::Option::None", (), None)))
                    continue
            if fn == "core::bool::<impl bool>::then" and len(vals) == 2 and isinstance(vals[1], tuple) and vals[1] and vals[1][0] == "clos":
                # `c.then(|| f())` is `if c { Some(f()) } else { None }`: the closure runs only on the true branch
                node = getattr(self, "clos_nodes", {}).get(vals[1][1])
                known = _const_truth(vals[0])
                if node is not None and not node["params"]:
                    cid_ = vals[1][1]
                    s.events = [x for x in s.events if x.clos != cid_]      # the closure runs in place (or not at all), not where it was written
                    for outcome in ((known,) if known is not None else (False, True)):
                        sb = s.fork() if (known is None and outcome is False) else s
                        self.ev(sb, "decide", e, how="if", outcome=outcome, cond=vals[0], cond_node=e["recv"], folded=known is not None)
                        if not outcome:
                            outs.append((sb, ("call", "core::option::Option::None", (), None)))
                            continue
                        for s3, v3 in self.eval(node["body"], sb):
                            if s3.ctrl is None:
                                outs.append((s3, ("call", "core::option::Option::Some", (v3,), None)))
                    continue
            if self.can_inline(fn):
                res = self.inline_call(e, s, fn, exprs, vals)
                if res is not None:
                    for s2, v2 in res:
                        self.ev(s2, "call", e, fn=fn, resolved=e.get("resolved"), args=tuple(vals), arg_nodes=exprs, recv=e["recv"], ret=v2, effects=(),
                                tys=[a["ty"] for a in exprs], targs=e.get("targs"), pos_before={}, pos_after={}, argkeys=[frozenset() for _ in exprs], direct=None, inlined=True)
                        outs.append((s2, v2))
                    continue
            outs.append((s, self.do_call(e, s, fn, e["recv"], exprs, vals)))
        return outs

    def e_FormatArgs(self, e, st):
        return [(s, ("call", "<format_args>", (v,), None)) for s, v in self.eval(e["e"], st)]

    def e_Yield(self, e, st):
        return self.eval(e["e"], st)

    def e_ConstBlock(self, e, st):
        return [(st, ("unk", "const", e.get("id")))]

    def e_Other(self, e, st):
        return [(st, ("unk", "other", e.get("id")))]

    def do_call(self, e, st, fn, recv_node, arg_nodes, vals):
        name = fn.rsplit("::", 1)[-1]
        tys = [a["ty"] for a in arg_nodes]
        # integer conversions are transparent
        if fn in ("core::convert::From::from", "core::convert::Into::into") and len(vals) == 1:
            if is_int_ty(e["ty"]) and is_int_ty(tys[0]):
                t = ("cast", e["ty"], vals[0], tys[0])
                self.ev(st, "cast", e, frm=tys[0], to=e["ty"], v=vals[0], lossless=True)
                return t
        # `s.chunks_exact(n).chain(once(<that iterator>.remainder()))` yields the chunks of `s.chunks(n)` in order, followed by one EMPTY slice when
        # n divides the length: the same leaves, plus possibly an empty tail.  It gets a name of its own (its elements, unlike those of `chunks`,
        # may be empty) under which the rules that reason about the chunking of the entry list recognise it.
        if fn == "core::iter::traits::iterator::Iterator::chain" and len(vals) == 2:
            a0, a1 = _strip_mut(vals[0]), _strip_mut(vals[1])
            if isinstance(a0, tuple) and a0 and a0[0] == "call" and a0[1].endswith("::chunks_exact") and len(a0[2]) == 2 and \
                    isinstance(a1, tuple) and a1 and a1[0] == "call" and a1[1] == "core::iter::sources::once::once" and len(a1[2]) == 1:
                rm = _strip_mut(a1[2][0])
                if isinstance(rm, tuple) and rm and rm[0] == "call" and rm[1].endswith("ChunksExact::<'a, T>::remainder") and len(rm[2]) == 1:
                    src = _strip_mut(rm[2][0])
                    if isinstance(src, tuple) and src[:3] == a0[:3]:
                        cfn = "core::slice::<impl [T]>::chunks_then_tail"
                        t = ("call", cfn, a0[2], None)
                        self.ev(st, "call", e, fn=cfn, args=tuple(a0[2]), arg_nodes=arg_nodes, recv=recv_node, ret=t, effects=(), uid=None, tys=tys,
                                argkeys=[frozenset() for _ in arg_nodes], pos_before={}, pos_after={}, direct=None, targs=e.get("targs"), resolved=e.get("resolved"))
                        return t
        # checked / saturating / wrapping arithmetic: the operator on the abstract value
        if name in ARITH_METHODS and len(vals) == 2 and fn.startswith("core::num::"):
            op, flavour = ARITH_METHODS[name]
            self.ev(st, "arith", e, op=op, l=vals[0], r=vals[1], lty=tys[0], rty=tys[1], flavour=flavour, ty=tys[0])
            return ("bin", op, vals[0], vals[1])
        if fn in MAP_OR_LIKE and len(vals) == 3 and isinstance(vals[2], tuple) and vals[2] and vals[2][0] == "clos":
            # `opt.map_or(default, f)` on a visible None / Some(x): the default, or f applied in place
            v0_ = vals[0]
            while isinstance(v0_, tuple) and v0_ and v0_[0] == "mut":
                v0_ = v0_[1]
            node = getattr(self, "clos_nodes", {}).get(vals[2][1])
            if isinstance(v0_, tuple) and v0_ and v0_[0] == "call" and v0_[3] is None:
                if v0_[1] in ("core::option::Option::None", "core::result::Result::Err"):
                    st.events[:] = [x for x in st.events if x.clos != vals[2][1]]
                    return vals[1]
                if v0_[1] in ("core::option::Option::Some", "core::result::Result::Ok") and len(v0_[2]) == 1 and node is not None and len(node["params"]) == 1:
                    sub = st.fork()
                    n0 = len(sub.events)
                    saved_paths = self.paths
                    self.paths = []
                    try:
                        self.bind(sub, node["params"][0], v0_[2][0], arg_nodes[0] if arg_nodes else None)
                        outs = [(s, v) for s, v in self.eval(node["body"], sub) if s.ctrl is None]
                        clean = not self.paths
                    finally:
                        self.paths = saved_paths
                    if clean and len(outs) == 1:
                        s2, v2 = outs[0]
                        st.env, st.under, st.pos, st.vers = s2.env, s2.under, s2.pos, s2.vers
                        st.events[:] = [x for x in st.events if x.clos != vals[2][1]]
                        st.events.extend(x for x in s2.events[n0:] if x.clos != vals[2][1])
                        return v2
        if fn in MAP_LIKE and len(vals) == 2 and isinstance(vals[1], tuple) and vals[1] and vals[1][0] == "call" and not vals[1][2] and vals[1][3] is None \
                and self.facts.fn(vals[1][1]) is not None and len(self.facts.fn(vals[1][1])["params"]) == 1:
            # a function item as the mapper: `r.and_then(Self::f)` is `f(payload)` on the success side
            v0_ = vals[0]
            while isinstance(v0_, tuple) and v0_ and v0_[0] == "mut":
                v0_ = v0_[1]
            if isinstance(v0_, tuple) and v0_ and v0_[0] == "call" and v0_[3] is None and v0_[1] in ("core::option::Option::None", "core::result::Result::Err"):
                return v0_
            visible_some = isinstance(v0_, tuple) and v0_ and v0_[0] == "call" and v0_[3] is None and v0_[1] in ("core::option::Option::Some", "core::result::Result::Ok") and len(v0_[2]) == 1
            pay = v0_[2][0] if visible_some else vals[0]
            g_ = vals[1][1]
            r_ = None
            if self.can_inline(g_):
                res_ = self.inline_call(e, st, g_, arg_nodes[:1], [pay])
                if res_ is not None and len(res_) == 1:
                    s2, r_ = res_[0]
                    st.env, st.under, st.pos, st.vers, st.events = s2.env, s2.under, s2.pos, s2.vers, s2.events
            if r_ is None:
                r_ = self.do_call(e, st, g_, None, arg_nodes[:1], [pay])
            if visible_some and fn.endswith("::map"):
                r_ = ("call", v0_[1], (r_,), None)
            return r_
        if fn in MAP_LIKE and len(vals) == 2 and isinstance(vals[1], tuple) and vals[1] and vals[1][0] == "clos":
            node = getattr(self, "clos_nodes", {}).get(vals[1][1])
            v0_ = vals[0]
            while isinstance(v0_, tuple) and v0_ and v0_[0] == "mut":
                v0_ = v0_[1]
            if isinstance(v0_, tuple) and v0_ and v0_[0] == "call" and v0_[3] is None and v0_[1] in ("core::option::Option::None", "core::result::Result::Err"):
                st.events[:] = [x for x in st.events if x.clos != vals[1][1]]
                return v0_          # nothing to map
            visible_some = isinstance(v0_, tuple) and v0_ and v0_[0] == "call" and v0_[3] is None and v0_[1] in ("core::option::Option::Some", "core::result::Result::Ok") and len(v0_[2]) == 1
            if visible_some:
                vals = [v0_[2][0]] + list(vals[1:])
            if node is not None and len(node["params"]) == 1:
                sub = st.fork()
                n0 = len(sub.events)
                saved_paths = self.paths
                self.paths = []
                try:
                    self.bind(sub, node["params"][0], vals[0], arg_nodes[0] if arg_nodes else None)
                    outs = [(s, v) for s, v in self.eval(node["body"], sub) if s.ctrl is None]
                    clean = not self.paths
                finally:
                    self.paths = saved_paths
                if clean and len(outs) == 1:
                    s2, v2 = outs[0]
                    # adopt the closure's bindings and events (it ran exactly once on this path)
                    st.env, st.under, st.pos, st.vers = s2.env, s2.under, s2.pos, s2.vers
                    st.events[:] = [x for x in st.events if x.clos != vals[1][1]]
                    st.events.extend(x for x in s2.events[n0:] if x.clos != vals[1][1])
                    if visible_some and fn.endswith("::map"):
                        v2 = ("call", v0_[1], (v2,), None)      # Some(x).map(f) is Some(f(x))
                    self.ev(st, "call", e, fn=fn, args=tuple(vals), arg_nodes=arg_nodes, recv=recv_node, ret=v2, effects=(), uid=None, tys=tys,
                            argkeys=[frozenset() for _ in arg_nodes], pos_before={}, pos_after={}, direct=None, targs=e.get("targs"), resolved=e.get("resolved"))
                    return v2
        if fn.startswith("core::option::Option::<") and name in ("as_ref", "as_mut", "as_deref", "as_deref_mut", "copied", "cloned") and len(vals) == 1:
            v0 = vals[0]
            while isinstance(v0, tuple) and v0 and v0[0] == "mut":
                v0 = v0[1]
            if isinstance(v0, tuple) and v0 and v0[0] == "call" and v0[3] is None and v0[1] in ("core::option::Option::None", "core::option::Option::Some"):
                return v0      # a view of a visible None / Some(x) is that None / Some(x)
        if fn in ("core::mem::replace", "core::mem::take") and arg_nodes and arg_nodes[0]["k"] == "Ref" and arg_nodes[0].get("mut"):
            place = arg_nodes[0]["e"]
            rv = self.root_var(place)
            if rv is not None and rv in st.env and place["k"] == "Field":
                old_v = vals[0]
                new_v = vals[1] if len(vals) > 1 else ("call", "core::default::Default::default", (), self.fresh())
                st.vers += 1
                st.env[rv] = ("mut", st.env[rv], self._fld_tag(place, st.vers, new_v))
                self.ev(st, "call", e, fn=fn, args=tuple(vals), arg_nodes=arg_nodes, recv=recv_node, ret=old_v, effects=(), uid=None, tys=tys,
                        argkeys=[frozenset() for _ in arg_nodes], pos_before={}, pos_after={}, direct=None, targs=e.get("targs"), resolved=e.get("resolved"))
                return old_v
        if fn.startswith("std::collections::hash::map::OccupiedEntry::") and fn.endswith(("::remove", "::remove_entry")) and len(vals) == 1:
            # removing through the occupied entry of `map.entry(k)` is `map.remove(&k)` (the value is known to exist)
            ent = [t for t in subterms(vals[0]) if isinstance(t, tuple) and t and t[0] == "call" and t[1] == "std::collections::hash::map::HashMap::<K, V, S, A>::entry" and len(t[2]) == 2]
            if ent:
                m_, k_ = ent[0][2]
                hm_remove = "std::collections::hash::map::HashMap::<K, V, S, A>::remove"
                ret_ = ("call", hm_remove, (m_, k_), self.fresh())
                self.ev(st, "call", e, fn=hm_remove, args=(m_, k_), arg_nodes=arg_nodes + arg_nodes, recv=recv_node, ret=ret_, effects=(), uid=None, tys=tys + tys,
                        argkeys=[frozenset(), frozenset()], pos_before={}, pos_after={}, direct=None, targs=e.get("targs"), resolved=e.get("resolved"), via_entry=True)
                return ret_
        if fn.startswith("std::collections::hash::map::VacantEntry::") and fn.endswith("::insert") and len(vals) == 2:
            # inserting through a vacant entry hands back (a reference to) the value just stored
            self.ev(st, "call", e, fn=fn, args=tuple(vals), arg_nodes=arg_nodes, recv=recv_node, ret=vals[1], effects=(), uid=None, tys=tys,
                    argkeys=[frozenset() for _ in arg_nodes], pos_before={}, pos_after={}, direct=None, targs=e.get("targs"), resolved=e.get("resolved"))
            return vals[1]
        if fn in PAYLOAD_TRANSPARENT and vals:
            ret_ = vals[0]
            if fn.endswith(("::ok_or", "::ok_or_else")) and isinstance(ret_, tuple) and ret_ and ret_[0] == "call" and ret_[3] is None:
                # a visible None becomes the error, a visible Some(x) becomes Ok(x)
                if ret_[1] == "core::option::Option::None":
                    ret_ = ("call", "core::result::Result::Err", (("call", fn, tuple(vals[1:]), self.fresh()),), None)
                elif ret_[1] == "core::option::Option::Some" and len(ret_[2]) == 1:
                    ret_ = ("call", "core::result::Result::Ok", (ret_[2][0],), None)
            self.ev(st, "call", e, fn=fn, args=tuple(vals), arg_nodes=arg_nodes, recv=recv_node, ret=ret_, effects=(), uid=None, tys=tys,
                    argkeys=[frozenset() for _ in arg_nodes], pos_before={}, pos_after={}, direct=None, targs=e.get("targs"), resolved=e.get("resolved"))
            return ret_
        # stream model
        effects = []
        ret = None
        keysets = [self.stream_keys(st, a) for a in arg_nodes]
        direct = self.root_var(arg_nodes[0]) if arg_nodes else None
        recv_keys = keysets[0] if keysets else frozenset()
        pos_before = {k: self.getpos(st, k) for ks in keysets for k in ks}
        if fn in POS_FNS and recv_keys:
            ret = self.getpos(st, direct) if direct in recv_keys else V("posq:%d" % self.fresh())
            effects.append(("pos", recv_keys))
        elif fn in SEEK_FNS and recv_keys:
            tgt = vals[1] if len(vals) > 1 else None
            newpos = None
            if fn.endswith("rewind"):
                newpos = C(0)
            elif isinstance(tgt, tuple) and tgt and tgt[0] == "call" and len(tgt[2]) == 1:
                if tgt[1] in SEEKFROM_START:
                    newpos = tgt[2][0]
                elif tgt[1] in SEEKFROM_CURRENT:
                    newpos = ("bin", "+", self.getpos(st, direct), tgt[2][0])
            if newpos is None:
                # a SeekFrom value the function received: the resulting position is whatever seek returns
                newpos = V("seekres:%d:%s" % (self.fresh(), tstr(tgt)))
            for k in recv_keys:
                st.pos[k] = newpos if k == direct else V("seekres:%d" % self.fresh())
            ret = newpos
            effects.append(("seek", recv_keys))
        elif fn in WRITE_FNS and recv_keys:
            amount = None
            if WRITE_FNS[fn] == "all" and len(vals) > 1 and st.under.get(direct, frozenset([direct])) == frozenset([direct]):
                amount = ("call", "len", (vals[1],), None)
            sig = self.bump(st, recv_keys, direct, amount)
            effects.append(("write", recv_keys))
            ret = ("call", fn, tuple(vals), self.fresh())
        elif fn in READ_FNS and keysets and (recv_keys or any(keysets)):
            allk = frozenset().union(*keysets)
            self.bump(st, allk, None, None)
            effects.append(("read", allk))
            ret = ("call", fn, tuple(vals), self.fresh())
        elif fn in FLUSH_FNS and recv_keys:
            # flushing a codec wrapper may emit buffered bytes to what it wraps
            wrapped = frozenset(k for k in recv_keys if k != direct)
            if wrapped:
                self.bump(st, wrapped, None, None)
            effects.append((FLUSH_FNS[fn], recv_keys))
            ret = ("call", fn, tuple(vals), self.fresh())
        elif fn in WRAP_FNS or is_codec_ctor(fn) or self._local_factory(fn):
            pass
        else:
            summ = self.summaries.get(fn)
            allk = frozenset().union(*keysets) if keysets else frozenset()
            if summ is not None:
                for i, ks in enumerate(keysets):
                    eff = summ.get(i, ())
                    if not ks or not eff:
                        continue
                    for kind in sorted(eff):
                        effects.append((kind, ks))
                    if "write" in eff or "read" in eff or "seek" in eff or "unknown" in eff or "flush" in eff or "close" in eff:
                        self.bump(st, ks, None, None)
            elif allk and not _is_value_only(fn):
                # unknown external callee that receives a stream: assume anything
                streamish = [ks for ks, t in zip(keysets, tys) if ks and _streamish_ty(t)]
                if streamish:
                    u = frozenset().union(*streamish)
                    self.bump(st, u, None, None)
                    effects.append(("unknown", u))
        if ret is None and name == "len" and len(vals) == 1:
            rv_ = self.root_var(arg_nodes[0]) if arg_nodes else None
            if rv_ is not None and rv_ in st.pos and "Vec<u8>" in (self.var_types.get(rv_, "") or tys[0]) and st.under.get(rv_, frozenset([rv_])) == frozenset([rv_]) and \
                    self.var_names.get(rv_) in self._write_targets():
                # a byte vector that has been written to through `Write`: its length is its stream position (it started empty)
                ret = st.pos[rv_]
            else:
                ret = ("call", "len", (vals[0],), None)
        if ret is None and name in ("as_slice", "as_mut_slice", "as_mut_vec", "deref", "deref_mut", "borrow", "as_ref") and len(vals) == 1 and \
                ("Vec<" in tys[0] or tys[0].lstrip("&").replace("mut ", "").startswith("[")):
            self.ev(st, "call", e, fn=fn, args=tuple(vals), arg_nodes=arg_nodes, recv=recv_node, ret=vals[0], effects=(), uid=None, tys=tys,
                    argkeys=[frozenset() for _ in arg_nodes], pos_before={}, pos_after={}, direct=None, targs=e.get("targs"), resolved=e.get("resolved"))
            return vals[0]                    # a view of the same sequence
        if ret is None and name == "first" and len(vals) == 1 and "slice" in fn:
            ret = ("idx", vals[0], C(0))        # Option payload level: `s.first()` is `s[0]` when it is Some
        if ret is None:
            pure = fn.endswith(PURE_SUFFIX) and not effects
            ret = ("call", fn, tuple(vals), None if pure else self.fresh())
        # mutation of by-value locals through &mut borrows (Vec::push, append, insert, sort, …)
        for a in arg_nodes:
            if _is_mut_borrow(a):
                rv = self.root_var(a)
                if rv is not None and rv in st.env and not _is_ref_ty(self.var_types.get(rv, "")):
                    st.vers += 1
                    st.env[rv] = ("mut", st.env[rv], st.vers)
                    if fn in READ_FNS and isinstance(ret, tuple):
                        # a buffer filled by a read: its contents (and, for read_to_end, its length) are what the stream delivered
                        self.read_filled[st.env[rv]] = ret
        self.ev(st, "call", e, fn=fn, resolved=e.get("resolved"), args=tuple(vals), arg_nodes=arg_nodes, recv=recv_node,
                ret=ret, effects=tuple(effects), tys=tys, targs=e.get("targs"), pos_before=pos_before, argkeys=keysets,
                pos_after={k: self.getpos(st, k) for ks in keysets for k in ks}, direct=direct)
        return ret

    # -- dependence queries
    def deps(self, t):
        """transitive leaves of a term, following the sources of havoc'd loop variables"""
        seen = set()
        work = list(leaves(t))
        while work:
            a = work.pop()
            if a in seen:
                continue
            seen.add(a)
            for src in self.havoc_src.get(a, ()):
                work.extend(leaves(src))
        return seen


_STREAM_WORDS = ("impl ", "dyn ", "Take<", "Cursor<", "BufReader<", "BufWriter<", "Encoder", "Decoder", "Compressor", "Decompressor", "TileManager<", "PMTiles<",
                 "File", "Read", "Write")


def is_streamlike_ty(ty):
    """may a value of this type be (or own) a stream?  generic parameters, trait objects, readers/writers/codecs and the archive types that own the
    backing reader are; plain data (integers, header/directory structs, byte vectors, tuples of those) is not"""
    import re as _re
    t = ty.strip()
    while t.startswith("&"):
        t = t[1:].strip()
        if t.startswith("'"):
            t = t.split(" ", 1)[1] if " " in t else t
        if t.startswith("mut "):
            t = t[4:].strip()
    if is_int_ty(t) or t in ("bool", "()", "f64", "f32"):
        return False
    if any(w in t for w in _STREAM_WORDS):
        return True
    if _re.fullmatch(r"[A-Z][A-Za-z0-9]{0,2}", t):
        return True
    m = _re.match(r"core::option::Option<(.*)>$", t)
    if m:
        return is_streamlike_ty(m.group(1))
    return False


def _ctor_match(v, pat):
    """True/False when the value is a visible enum-constructor application and the pattern's top constructor is known; None otherwise"""
    while pat is not None and pat.get("k") in ("RefPat", "GuardPat"):
        pat = pat["pat"]
    if pat is None:
        return None
    k = pat.get("k")
    if k == "Tuple":
        # component-wise against a visible tuple: one certain mismatch rules the arm out, all certain matches select it
        vv = v
        while isinstance(vv, tuple) and vv and vv[0] == "mut":
            vv = vv[1]
        if isinstance(vv, tuple) and vv and vv[0] == "tup" and len(vv[1]) == len(pat.get("pats") or []) and pat.get("dd") is None:
            res = []
            for sp, comp in zip(pat["pats"], vv[1]):
                q = sp
                while q is not None and q.get("k") in ("RefPat",):
                    q = q.get("pat")
                if q is not None and (q.get("k") == "Wild" or (q.get("k") == "Bind" and q.get("sub") is None)):
                    res.append(True)
                else:
                    res.append(_ctor_match(comp, sp))
            if False in res:
                return False
            if all(r is True for r in res):
                return True
        return None
    if k == "TupleStruct":
        pc = pat.get("ctor")
    elif k == "PathPat":
        pc = pat.get("def")
    elif k == "Struct":
        pc = pat.get("adt")
    else:
        return None
    while isinstance(v, tuple) and v and v[0] == "mut":
        v = v[1]
    if isinstance(v, tuple) and v and v[0] == "call" and v[3] is None and pc is not None:
        vc = v[1]
        known = ("core::option::Option::Some", "core::option::Option::None", "core::result::Result::Ok", "core::result::Result::Err")
        if vc in known and pc in known:
            if vc != pc:
                return False
            # same constructor: a certain match only if the sub-patterns cannot fail (`Some(x)`, `Some(_)`); `Some(Object(m))` may still not match
            subs = pat.get("pats") or [f.get("pat") for f in (pat.get("fields") or [])]
            for q in subs:
                while q is not None and q.get("k") in ("RefPat",):
                    q = q.get("pat")
                if q is not None and not (q.get("k") == "Wild" or (q.get("k") == "Bind" and q.get("sub") is None)):
                    return None
            return True
    return None


def _const_truth(v):
    if isinstance(v, tuple) and v and v[0] == "bin" and v[1] in ("==", "!=", "<", "<=", ">", ">=") and v[2][0] == "c" and v[3][0] == "c":
        a, b = v[2][1], v[3][1]
        return {"==": a == b, "!=": a != b, "<": a < b, "<=": a <= b, ">": a > b, ">=": a >= b}[v[1]]
    if isinstance(v, tuple) and v and v[0] == "lit" and v[1] == "bool" and isinstance(v[2], bool):
        return v[2]
    if isinstance(v, tuple) and v and v[0] == "un" and v[1] == "!":
        inner = _const_truth(v[2])
        return None if inner is None else (not inner)
    if isinstance(v, tuple) and v and v[0] == "call" and v[1].endswith(("::is_none", "::is_some", "::is_ok", "::is_err")) and len(v[2]) == 1:
        a = v[2][0]
        while isinstance(a, tuple) and a and a[0] == "mut":
            a = a[1]
        if isinstance(a, tuple) and a and a[0] == "call" and a[3] is None:
            ctor = {"core::option::Option::None": "none", "core::option::Option::Some": "some", "core::result::Result::Ok": "ok", "core::result::Result::Err": "err"}.get(a[1])
            if ctor is not None:
                want = {"::is_none": "none", "::is_some": "some", "::is_ok": "ok", "::is_err": "err"}[[x for x in ("::is_none", "::is_some", "::is_ok", "::is_err") if v[1].endswith(x)][0]]
                return ctor == want
    if isinstance(v, tuple) and v and v[0] == "bin" and v[1] in ("&&", "||"):
        l, r = _const_truth(v[2]), _const_truth(v[3])
        if v[1] == "&&":
            if l is False or r is False:
                return False
            if l is True and r is True:
                return True
        else:
            if l is True or r is True:
                return True
            if l is False and r is False:
                return False
    return None


def _is_full_range(t):
    if isinstance(t, tuple) and t and t[0] == "struct":
        if t[1] == "core::ops::range::RangeFull":
            return True
        if t[1] == "core::ops::range::RangeFrom":
            for n, v in t[2]:
                if n == "start" and v == C(0):
                    return True
    if isinstance(t, tuple) and t and t[0] == "call" and t[1] == "core::ops::range::RangeFull":
        return True
    return False


# codec configuration setters: they change how a decoder will behave, they do not touch the stream it wraps (external model, DESIGN §3.6)
CODEC_CONFIG_SUFFIX = ("::multiple_members", "::single_frame", "::window_log_max", "::include_magicbytes")


def _is_value_only(fn):
    return fn.endswith(PURE_SUFFIX) or (fn.endswith(CODEC_CONFIG_SUFFIX) and fn.startswith(("async_compression::", "zstd::", "flate2::", "brotli")))


def _streamish_ty(t):
    t = t.strip()
    if not t.startswith("&mut") and "impl " not in t and "Box<dyn" not in t:
        return False
    return True


def _strip_mut(t):
    while isinstance(t, tuple) and t and t[0] == "mut":
        t = t[1]
    return t


def _is_ref_ty(t):
    return t.startswith("&")


def _is_mut_borrow(a):
    if a["k"] == "Ref" and a["mut"]:
        return True
    aty = a.get("aty", "")
    if aty.startswith("&mut") and not a["ty"].startswith("&"):
        return True
    return False


def _has_let(c):
    if c["k"] == "LetCond":
        return True
    if c["k"] == "Bin" and c["op"] == "&&":
        return _has_let(c["l"]) or _has_let(c["r"])
    return False


def _pat_vars(p):
    from hir import pat_bindings
    return list(pat_bindings(p))


def _assigned_in(body, fa):
    """variables assigned / mutably borrowed inside a loop body, and stream roots touched there (syntactic)"""
    from hir import walk
    assigned = set()
    mutated = set()
    streams = set()
    for n in walk(body):
        k = n["k"]
        if k in ("Assign", "AssignOp"):
            rv = fa.root_var(n["l"])
            if rv is not None:
                if n["l"]["k"] == "Local":
                    assigned.add(rv)
                else:
                    mutated.add(rv)
        elif k in ("Call", "MCall"):
            args = ([n["recv"]] if k == "MCall" else []) + n["args"]
            for a in args:
                rv = fa.root_var(a)
                if rv is None:
                    continue
                if _is_mut_borrow(a):
                    mutated.add(rv)
                if a["ty"].startswith("&mut") or a.get("aty", "").startswith("&mut") or _is_mut_borrow(a):
                    streams.add(rv)
    return assigned, mutated, streams


# ------------------------------------------------------------------------------------------------
# effect summaries of local functions (which stream-typed parameter a function may read/write/seek), fixpoint

def compute_summaries(facts):
    from hir import walk
    summ = {f["path"]: {} for f in facts.user_fns()}
    changed = True
    rounds = 0
    while changed and rounds < 20:
        changed = False
        rounds += 1
        for f in facts.user_fns():
            cur = summ[f["path"]]
            new = _fn_effects(facts, f, summ)
            for i, eff in new.items():
                if not eff <= cur.get(i, set()):
                    cur[i] = cur.get(i, set()) | eff
                    changed = True
    return summ


def _fn_effects(facts, f, summ):
    """flow-insensitive: a parameter is affected by an effect call if it occurs (through local bindings) in the
    receiver/argument expression of that call"""
    from hir import walk, pat_bindings
    params = {}
    for i, p in enumerate(f["params"]):
        for var, _ in pat_bindings(p["pat"]):
            params[var] = i
    derives = {v: {i} for v, i in params.items()}

    def expr_params(e):
        out = set()
        for n in walk(e):
            if n["k"] == "Local" and n["var"] in derives:
                out |= derives[n["var"]]
        return out

    # close derives over let-bindings of non-value types
    for _ in range(6):
        grew = False
        for n in walk(f["body"]):
            if n["k"] == "Let" and n["init"] is not None:
                ps = expr_params(n["init"])
                for var, _ in pat_bindings(n["pat"]):
                    ty = n["pat"].get("ty", "")
                    t = ty.lstrip("&").replace("mut ", "").strip()
                    if is_int_ty(t) or t in ("bool", "()", "f64"):
                        continue
                    if not ps <= derives.get(var, set()):
                        derives[var] = derives.get(var, set()) | ps
                        grew = True
            elif n["k"] in ("Match", "LetCond", "For"):
                src = n["e"] if n["k"] != "For" else n["iter"]
                ps = expr_params(src)
                pats = [a["pat"] for a in n["arms"]] if n["k"] == "Match" else [n.get("pat")]
                for p in pats:
                    for var, _ in pat_bindings(p):
                        if not ps <= derives.get(var, set()):
                            derives[var] = derives.get(var, set()) | ps
                            grew = True
        if not grew:
            break
    out = {}
    streamish = set(i for i, p in enumerate(f["params"]) if is_streamlike_ty(p.get("ty") or p["pat"].get("ty") or ""))

    def add(ps, kind):
        for i in ps:
            if i in streamish:
                out.setdefault(i, set()).add(kind)

    for n in walk(f["body"]):
        if n["k"] not in ("Call", "MCall") or not n.get("fn"):
            continue
        fn = n["fn"]
        args = ([n["recv"]] if n["k"] == "MCall" else []) + n["args"]
        if fn in READ_FNS:
            for a in args:
                add(expr_params(a), "read")
        elif fn in WRITE_FNS:
            add(expr_params(args[0]), "write")
        elif fn in FLUSH_FNS:
            add(expr_params(args[0]), FLUSH_FNS[fn])
        elif fn in SEEK_FNS:
            add(expr_params(args[0]), "seek")
        elif fn in POS_FNS:
            add(expr_params(args[0]), "pos")
        elif fn in summ:
            for i, a in enumerate(args):
                eff = summ[fn].get(i)
                if eff:
                    for kind in eff:
                        add(expr_params(a), kind)
    return out


_cache = {}


def analyse(facts, fn, summaries):
    key = (id(facts), fn["path"])
    if key not in _cache:
        _cache[key] = FnAnalysis(facts, fn, summaries)
    return _cache[key]


if __name__ == "__main__":
    import sys
    from hir import Facts
    facts = Facts(sys.argv[1])
    summ = compute_summaries(facts)
    for name in sys.argv[2:]:
        for f in facts.fn_by_suffix(name):
            fa = FnAnalysis(facts, f, summ)
            print("fn %s: %d paths; summary %s" % (f["path"], len(fa.paths), summ.get(f["path"])))
            for i, p in enumerate(fa.paths):
                print("  path %d exit=%s value=%s (%d events)" % (i, p.exit, tstr(p.value), len(p.events)))
                if "-v" in sys.argv or len(fa.paths) <= 3:
                    for ev in p.events:
                        if ev.kind in ("let", "discard", "await"):
                            continue
                        d = {k: (tstr(v) if isinstance(v, tuple) and v and isinstance(v[0], str) else v) for k, v in ev.d.items() if k not in ("arg_nodes", "recv", "pat", "cond_node", "arm", "place_node", "idx_node", "tys", "targs", "pos_before", "pos_after")}
                        if ev.kind == "call":
                            d["args"] = [tstr(a) for a in ev.d["args"]]
                            d["pos_after"] = {fa.var_names.get(k, k): aff_str(affine(v)) for k, v in ev.d["pos_after"].items()}
                        print("     %-7s %-28s %s" % (ev.kind, ev.loc(), d))
