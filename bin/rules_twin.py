"""Sibling agreement and transfer/error discipline (C12, C13, C14, C15, C19, C08):
R-TWIN, R-TWIN-HAND, R-FACTORY, R-REJ-UNKNOWN, R-ONESHOT, R-XFER, R-NOPOLL, R-RESULT-USED, R-NO-UNWRAP, R-FINALISE."""
from rulebase import *
import absint
from rules_writer import no_anchor, struct_field
from rules_reader import unmut, is_call_to

# ------------------------------------------------------------------------------------------------
# twin pairing and structural comparison

TWIN_CALLEE = {
    "futures_util::io::AsyncReadExt::read_exact": "std::io::Read::read_exact",
    "futures_util::io::AsyncReadExt::read_to_end": "std::io::Read::read_to_end",
    "futures_util::io::AsyncReadExt::read": "std::io::Read::read",
    "futures_util::io::AsyncReadExt::take": "std::io::Read::take",
    "futures_util::io::AsyncSeekExt::seek": "std::io::Seek::seek",
    "futures_util::io::AsyncSeekExt::stream_position": "std::io::Seek::stream_position",
    "futures_util::io::AsyncWriteExt::write_all": "std::io::Write::write_all",
    "futures_util::io::AsyncWriteExt::write": "std::io::Write::write",
    # finishing a codec writer: sync flush (then Drop) ↔ async close
    "futures_util::io::AsyncWriteExt::close": "<finish>",
    "std::io::Write::flush": "<finish>",
    "futures_util::io::AsyncWriteExt::flush": "<async-flush-only>",
    "integer_encoding::reader::VarIntAsyncReader::read_varint_async": "integer_encoding::reader::VarIntReader::read_varint",
    "integer_encoding::writer::VarIntAsyncWriter::write_varint_async": "integer_encoding::writer::VarIntWriter::write_varint",
    "futures_util::io::cursor::Cursor::<T>::new": "std::io::cursor::Cursor::<T>::new",
}


def base_name(path):
    mod, _, name = path.rpartition("::")
    n = name.replace("_async", "").replace("async_", "")
    return mod + "::" + n


def _asyncish(f):
    return bool(f["async"]) or "Future<" in f["ret"] or "dyn core::future" in f["ret"] or "Pin<alloc::boxed::Box<(dyn" in f["ret"]


_TWIN_OF = {}      # path -> canonical (sync) path, for twins paired by their shared template location rather than by name


def twin_pairs(ctx):
    by = {}
    for f in ctx.user_fns():
        by.setdefault(base_name(f["path"]), []).append(f)
    pairs = []
    paired = set()
    for k, fs in by.items():
        if len(fs) == 2:
            a, b = fs
            sa = "async" in a["path"].rpartition("::")[2]
            sb = "async" in b["path"].rpartition("::")[2]
            if sa != sb:
                pairs.append((b, a) if sa else (a, b))
                paired |= {a["path"], b["path"]}
    # instantiations of one `duplicate_item` template share their source location whatever they are called
    _TWIN_OF.clear()
    byloc = {}
    for f in ctx.user_fns():
        bl = (f.get("body") or {}).get("loc")       # the body block comes from the template for every instantiation; the `fn`/`async` tokens may not
        if f["path"] not in paired and bl:
            byloc.setdefault(bl, []).append(f)
    for loc, fs in byloc.items():
        if len(fs) == 2 and _asyncish(fs[0]) != _asyncish(fs[1]):
            sfn, afn = (fs[1], fs[0]) if _asyncish(fs[0]) else (fs[0], fs[1])
            pairs.append((sfn, afn))
            _TWIN_OF[afn["path"]] = sfn["path"]
            _TWIN_OF[sfn["path"]] = sfn["path"]
    return sorted(pairs, key=lambda p: p[0]["path"])


def canon_fn(fn, local):
    if fn in TWIN_CALLEE:
        return TWIN_CALLEE[fn]
    if fn in _TWIN_OF:
        return _TWIN_OF[fn]
    if fn in local:
        return base_name(fn)
    return fn


_ALPHA = {}
_PARAM = {}


def _alpha(var, name, binding=False):
    """locals are compared up to renaming: a binding is identified by the order in which it is introduced; a parameter by its position
    (the desugared body of an async fn refers to its parameters through fresh ids, so parameters are resolved by name)"""
    if var is not None and var in _ALPHA:
        return _ALPHA[var]
    if binding and var is not None:
        _ALPHA[var] = "#%d" % len([v for v in _ALPHA.values() if v.startswith("#")])
        return _ALPHA[var]
    return _PARAM.get(name, name)


def norm_fn(f, local):
    _ALPHA.clear()
    _PARAM.clear()
    for i, p in enumerate(f.get("params") or []):
        if p["pat"]["k"] == "Bind":
            _PARAM[p["pat"]["name"]] = "$%d" % i
        else:
            npat(p["pat"])       # a destructuring parameter binds its variables before the body (an async fn does the same with a leading `let`)
    return norm(f["body"], local)


def npat(p):
    if p is None:
        return None
    k = p["k"]
    if k == "Bind":
        return ("bind", _alpha(p.get("var"), p["name"], True), npat(p["sub"]))
    if k == "Wild":
        return ("_",)
    if k in ("Tuple", "Or", "SlicePat"):
        return (k,) + tuple(npat(x) for x in p["pats"])
    if k == "TupleStruct":
        return ("ts", p.get("ctor")) + tuple(npat(x) for x in p["pats"])
    if k == "Struct":
        return ("st", p.get("adt")) + tuple((f["name"], npat(f["pat"])) for f in p["fields"])
    if k == "PathPat":
        return ("pp", p.get("def"))
    if k in ("RefPat", "GuardPat"):
        return npat(p["pat"])
    if k == "LitPat":
        return ("lit", p.get("int", p.get("bool")))
    return (k,)


def norm(e, local):
    """type-free structural skeleton of a body with `?`, `.await`, async blocks and the twin table made transparent"""
    if e is None:
        return None
    k = e["k"]
    if k in ("Try", "Await"):
        return norm(e["e"], local)
    if k == "Async":
        return norm(e["body"], local)
    if k == "Block":
        stmts = []
        for s in e["stmts"]:
            if s["k"] == "Let":
                # `let x = x;` — the parameter rebinding an async fn desugars to
                if s["pat"]["k"] == "Bind" and s["init"] is not None and s["init"]["k"] == "Local" and s["init"]["name"] == s["pat"]["name"]:
                    if s["pat"].get("var") is not None:
                        _ALPHA[s["pat"]["var"]] = _alpha(s["init"].get("var"), s["init"]["name"])
                    continue
                # `let (a, b) = __argN;` — how an async fn destructures a pattern parameter: the sync twin does it in its signature
                if s["pat"]["k"] != "Bind" and s["init"] is not None and s["init"]["k"] == "Local" and s["init"]["name"] in _PARAM and s["init"]["name"].startswith("__arg"):
                    npat(s["pat"])
                    continue
                stmts.append(("let", npat(s["pat"]), norm(s["init"], local), norm(s["els"], local)))
            else:
                stmts.append((s["k"].lower(), norm(s["e"], local)))
        tail = norm(e["e"], local)
        if not stmts and tail is not None:
            return tail
        return ("block", tuple(stmts), tail)
    if k == "Lit":
        for key in ("int", "bool", "float", "str", "char"):
            if key in e:
                return ("lit", e[key])
        return ("lit", None)
    if k == "Local":
        return ("var", _alpha(e.get("var"), e["name"]))
    if k == "Path":
        c = e.get("const")
        return ("path", canon_fn(e.get("def", "?"), local), (c or {}).get("int"))
    if k in ("Call", "MCall"):
        fn = e.get("fn") or "?"
        args = ([e["recv"]] if k == "MCall" else []) + e["args"]
        if fn in ("alloc::boxed::Box::<T>::pin",) and len(args) == 1 and args[0]["k"] == "Async":
            return norm(args[0], local)
        ints = tuple(t for t in (e.get("targs") or []) if t in absint.INT_TYPES)
        return ("call", canon_fn(fn, local), ints, tuple(norm(a, local) for a in args))
    if k == "Bin":
        return ("bin", e["op"], norm(e["l"], local), norm(e["r"], local))
    if k == "Un":
        return ("un", e["op"], norm(e["e"], local))
    if k == "Cast":
        return ("cast", e["ty"], norm(e["e"], local))
    if k == "Field":
        return ("field", e["name"], norm(e["e"], local))
    if k == "Index":
        return ("index", norm(e["e"], local), norm(e["i"], local))
    if k == "Assign":
        return ("assign", norm(e["l"], local), norm(e["r"], local))
    if k == "AssignOp":
        return ("assignop", e["op"], norm(e["l"], local), norm(e["r"], local))
    if k == "Struct":
        return ("struct", e.get("adt"), tuple((f["name"], norm(f["e"], local)) for f in e["fields"]), norm(e["base"], local))
    if k in ("Tup", "Array"):
        return (k,) + tuple(norm(x, local) for x in e["es"])
    if k == "Ref":
        return ("ref", e["mut"], norm(e["e"], local))
    if k == "If":
        return ("if", norm(e["c"], local), norm(e["t"], local), norm(e["e"], local))
    if k == "LetCond":
        return ("letcond", npat(e["pat"]), norm(e["e"], local))
    if k == "Match":
        return ("match", norm(e["e"], local), tuple((npat(a["pat"]), norm(a["guard"], local), norm(a["body"], local)) for a in e["arms"]))
    if k == "For":
        return ("for", npat(e.get("pat")), norm(e["iter"], local), norm(e.get("body"), local))
    if k == "While":
        return ("while", norm(e["c"], local), norm(e["body"], local))
    if k == "Loop":
        return ("loop", norm(e["body"], local))
    if k == "Closure":
        return ("closure", tuple(npat(p) for p in e["params"]), norm(e["body"], local))
    if k == "Ret":
        return ("ret", norm(e["e"], local))
    if k == "Break":
        return ("break",)
    if k == "Continue":
        return ("continue",)
    if k == "Repeat":
        return ("repeat", norm(e["e"], local), e.get("n"))
    return (k,)


def first_diff(a, b, path=""):
    if a == b:
        return None
    if type(a) != type(b) or not isinstance(a, tuple) or len(a) != len(b):
        return path, a, b
    for i, (x, y) in enumerate(zip(a, b)):
        d = first_diff(x, y, path + "/%s" % (a[0] if i == 0 and isinstance(a[0], str) else i))
        if d is not None:
            return d
    return path, a, b


def same_shape(a, b):
    """same tree structure and node kinds; leaves (literals, names, callee paths) may differ"""
    if isinstance(a, tuple) and isinstance(b, tuple):
        if len(a) != len(b):
            return False
        if a and isinstance(a[0], str) and isinstance(b[0], str) and a[0] != b[0] and a[0] in NODE_TAGS and b[0] in NODE_TAGS:
            return False
        return all(same_shape(x, y) for x, y in zip(a, b))
    if isinstance(a, tuple) != isinstance(b, tuple):
        return False
    return True


NODE_TAGS = {"block", "let", "semi", "expr", "lit", "var", "path", "call", "bin", "un", "cast", "field", "index", "assign", "assignop", "struct", "Tup", "Array",
             "ref", "if", "letcond", "match", "for", "while", "loop", "closure", "ret", "break", "continue", "repeat", "bind", "ts", "st", "pp", "_"}


def brief(t, n=110):
    s = repr(t)
    return s if len(s) <= n else s[:n] + "…"


def is_template_pair(a, b):
    """both twins instantiated from one duplicate_item template: most statement locations coincide"""
    la = [n.get("loc") for n in walk(a["body"]) if n["k"] in ("Let", "Call", "MCall") and n.get("loc")]
    lb = set(n.get("loc") for n in walk(b["body"]) if n["k"] in ("Let", "Call", "MCall") and n.get("loc"))
    if not la:
        return False
    return sum(1 for x in la if x in lb) * 2 >= len(la) and len(la) >= 3


def _arg_sig(fa, a):
    a = unmut(a)
    while isinstance(a, tuple) and a and a[0] == "cast":
        a = unmut(a[2])
    if isinstance(a, tuple) and a and a[0] == "v" and str(a[1]).startswith("param:"):
        nm = a[1][len("param:"):]
        return "$%d" % fa.param_names.index(nm) if nm in fa.param_names else "·"
    if isinstance(a, tuple) and a and a[0] == "c":
        return "const %s" % (a[1],)
    if is_call_to(a, lambda s_: s_.endswith("Option::None")):
        return "None"
    return "·"


def effect_skeleton(ctx, f):
    """per success path: the stream effects on parameters + the parsers/serialisers used, in order (R-TWIN-HAND)"""
    fa = ctx.fa(f)
    local = set(ctx.facts.fns)
    out = set()
    params = set(fa.params.values())
    for p in fa.paths:
        if p.exit not in ("ok", "tail"):
            continue
        sk = []
        for e in p.events:
            if e.kind != "call":
                continue
            fn = e.d["fn"]
            kinds = sorted(set(k for k, ks in e.d["effects"] if ks & params))
            if fn in local:
                # a local callee is compared with its own twin; of its summary only the byte-moving kinds matter here (flush↔close is the codec twin mapping)
                kinds = [k for k in kinds if k not in ("flush", "close", "pos")] or kinds
            if kinds:
                how = absint.READ_FNS.get(fn) or absint.WRITE_FNS.get(fn) or ""
                size = ""
                if fn.endswith("::read_exact") and len(e.d["arg_nodes"]) > 1:
                    node = e.d["arg_nodes"][1]
                    size = node["e"]["ty"] if node["k"] == "Ref" else node["ty"]
                cf = canon_fn(fn, local) if fn in local else ""
                if fn in local:
                    # what the sibling hands to the shared callee: its own parameters by position, constants and `None` by value, anything else opaque
                    cf = (cf, tuple(_arg_sig(fa, a_) for a_ in e.d["args"]))
                # a transfer through a `take(limit)` view of the stream is a different transfer: it stops at the limit
                lim = [t for a_ in e.d["args"][:1] for t in subterms(unmut(a_)) if isinstance(t, tuple) and t and t[0] == "call" and t[1].endswith("::take") and len(t[2]) == 2]
                if lim:
                    size = (size + " " if size else "") + "take(%s)" % tstr(unmut(lim[0][2][1]))[:40]
                if how == "to_end":
                    kinds_t = ("read-to-end",)
                else:
                    kinds_t = tuple(kinds)
                sk.append((kinds_t, how if how != "to_end" else "", size, cf))
            elif fn.startswith("serde_json::de::from_"):
                sk.append(("json-parse",))
            elif fn in ("deku::DekuRead::read",):
                sk.append(("deku-read", e.d.get("resolved")))
            elif fn in ("deku::DekuWrite::write", "deku::DekuContainerWrite::to_bytes"):
                sk.append(("deku-write", (e.d.get("resolved") or "").replace("DekuContainerWrite>::to_bytes", "DekuWrite>::write")))
            elif fn in local and not kinds and any(x in fn for x in ("parse_meta_data",)):
                sk.append(("local", canon_fn(fn, local)))
        # the async header writer may flush after its single write_all; flushing a raw stream moves no bytes
        # (and a position query moves none either)
        sk = [s for s in sk if s[0] not in (("flush",), ("close",), ("pos",))]
        # a JSON parse that drains a reader is the same transfer as read_to_end followed by a parse of the buffer
        merged = []
        for s in sk:
            if s == ("json-parse",) and merged and merged[-1][0] == ("read-to-end",) and "take(" not in (merged[-1][2] or ""):
                merged[-1] = (("read-to-end+json",),)
            elif s[0] == ("read-to-end",) and s[3] == "" and s[1] == "":
                merged.append(s)
            else:
                merged.append(s)
        # serde_json::from_reader is itself a read-to-end + parse
        norm_sk = []
        for s in merged:
            if s[0] == ("read-to-end",) and len(s) > 1:
                norm_sk.append((("read-to-end",), s[2]) if "take(" in (s[2] or "") else (("read-to-end",),))
            else:
                norm_sk.append(s)
        # collapse [read-to-end, json-parse] and [read-to-end(from_reader)] to one token
        col = []
        i = 0
        while i < len(norm_sk):
            s = norm_sk[i]
            if s[0] == ("read-to-end",):
                if i + 1 < len(norm_sk) and norm_sk[i + 1] == ("json-parse",):
                    i += 1
                col.append(("read-to-end+json?",) + tuple(s[1:]))
            elif s == (("read-to-end+json",),):
                col.append(("read-to-end+json?",))
            else:
                col.append(s)
            i += 1
        out.add(tuple(col))
    return out


def _passes_through(ctx, t, sp, depth):
    """t is the given stream itself, boxed — directly or by a local helper that does nothing but box its argument"""
    t = unmut(t)
    if t == sp:
        return True
    if depth > 3 or not (isinstance(t, tuple) and t and t[0] == "call"):
        return False
    if t[1] == "alloc::boxed::Box::<T>::new" and len(t[2]) == 1:
        return _passes_through(ctx, t[2][0], sp, depth + 1)
    g = ctx.fn(t[1]) if t[1] in ctx.facts.fns else None
    if g is not None and len(t[2]) == 1 and len(g["params"]) == 1 and not any(absint.is_codec_ctor(c["fn"]) for c in calls(g["body"])):
        ga = ctx.fa(g)
        own = V("param:" + ga.param_names[0])
        return bool(ga.paths) and all(p.exit in ("ok", "tail", "unit") and _passes_through(ctx, p.value, own, depth + 1) for p in ga.paths) and _passes_through(ctx, t[2][0], sp, depth + 1)
    return False


def r_twin(ctx):
    obs = []
    if "async" not in ctx.facts.features:
        return [Ob("R-TWIN", "<crate>", "async feature off", True, "config without the async feature: no async twins to compare")]
    pairs = twin_pairs(ctx)
    if not pairs:
        return no_anchor("R-TWIN", "sync/async sibling functions")
    local = set(ctx.facts.fns)
    fac_impl = set(f["path"] for f in ctx._factory_impls()[0])
    for s, a in pairs:
        if s["path"] in fac_impl and a["path"] in fac_impl:
            # codec factories differ by construction (sync vs async codec types); what must agree is decided by R-FACTORY arm by arm
            obs.append(Ob("R-TWIN", s["path"], "%s ↔ %s" % (s["path"].rpartition("::")[2], a["path"].rpartition("::")[2]), True, "codec factories: compared by R-FACTORY", rel(a["loc"])))
            continue
        ns, na = norm_fn(s, local), norm_fn(a, local)
        d = first_diff(ns, na)
        tmpl = is_template_pair(s, a)
        site = "%s ↔ %s" % (s["path"].rpartition("::")[2], a["path"].rpartition("::")[2])
        if d is None:
            obs.append(Ob("R-TWIN", s["path"], site, True, "bodies are isomorphic modulo `?`/.await/async and the twin table", rel(a["loc"])))
            continue
        if tmpl or same_shape(ns, na):
            # one template, or hand-written bodies of identical structure that differ only in a leaf (a constant, a callee, a field name)
            obs.append(Ob("R-TWIN", s["path"], site, False,
                          "%s differ at %s: sync has %s, async has %s" % ("template twins" if tmpl else "structurally identical siblings", d[0], brief(d[1]), brief(d[2])), rel(a["loc"])))
            continue
        # hand-written pair: same effect skeleton on the stream parameters and the same parsers
        try:
            ks, ka = effect_skeleton(ctx, s), effect_skeleton(ctx, a)
        except PathExplosion:
            ks, ka = {"?"}, {"??"}
        obs.append(Ob("R-TWIN-HAND", s["path"], site, ks == ka and bool(ks),
                      "hand-written siblings: stream-effect/parse skeletons %s: sync %s vs async %s" % ("agree" if ks == ka else "DIFFER", brief(sorted(ks), 160), brief(sorted(ka), 160)), rel(a["loc"])))
    return obs


# ------------------------------------------------------------------------------------------------
# codec factories

FAMILY = {
    "GZip": ("flate2::gz::", "async_compression::futures::write::GzipEncoder", "async_compression::futures::bufread::GzipDecoder"),
    "Brotli": ("brotli::enc::writer::CompressorWriter", "brotli_decompressor::reader::Decompressor", "brotli::", "async_compression::futures::write::BrotliEncoder", "async_compression::futures::bufread::BrotliDecoder"),
    "ZStd": ("zstd::stream::", "async_compression::futures::write::ZstdEncoder", "async_compression::futures::bufread::ZstdDecoder"),
}
ENC_WORDS = ("Encoder", "CompressorWriter")
DEC_WORDS = ("Decoder", "Decompressor")
# what a decoder does after the first frame/member of its input (library documentation; part of the external model, DESIGN §3.6):
#   single = stops there, leaving the rest unread;  multi = decodes every following frame/member too (and fails on trailing garbage)
MEMBERS = (
    ("flate2::gz::read::MultiGzDecoder", "multi"), ("flate2::gz::bufread::MultiGzDecoder", "multi"),
    ("flate2::gz::read::GzDecoder", "single"), ("flate2::gz::bufread::GzDecoder", "single"),
    ("brotli_decompressor::reader::Decompressor", "single"), ("brotli::Decompressor", "single"),
    ("zstd::stream::read::Decoder", "multi"),                                  # unless .single_frame()
    ("async_compression::futures::bufread::GzipDecoder", "single"),          # unless .multiple_members(true)
    ("async_compression::futures::bufread::BrotliDecoder", "single"),
    ("async_compression::futures::bufread::ZstdDecoder", "single"),
)


def member_semantics(p, ctors):
    """'single' | 'multi' | None (decoder not in the table) for the decoder built on path p"""
    sem = None
    for c in ctors:
        for pre, m in MEMBERS:
            if c[1].startswith(pre):
                sem = m
    if sem is None:
        return None
    for e in p.events:
        if e.kind != "call":
            continue
        if e.d["fn"].endswith("::single_frame"):
            sem = "single"
        if e.d["fn"].endswith("::multiple_members") and len(e.d["args"]) == 2:
            a = unmut(e.d["args"][1])
            if a == ("lit", "bool", True):
                sem = "multi"
            elif a == ("lit", "bool", False):
                sem = "single"
            else:
                sem = None
    return sem


def r_factory(ctx):
    obs = []
    facs = ctx.codec_factories()
    want = 4 if "async" in ctx.facts.features else 2
    obs.append(Ob("R-FACTORY", "<crate>", "number of codec factories", len(facs) == want, "found %d codec factories (expected %d)" % (len(facs), want)))
    comp = ctx.facts.adts.get("header::compression::Compression")
    variants = [v["name"] for v in comp["variants"]] if comp else []
    members = {}
    for f in facs:
        fn = f["path"]
        fa = ctx.fa(f)
        is_enc = "Write" in f["ret"]
        seen = {}
        for p in fa.paths:
            arm = None
            for d in p.decisions():
                if d.d["how"] == "match" and d.d.get("pat") is not None and d.d["pat"]["k"] == "PathPat" and unmut(d.d["cond"]) == role_param(fa, f, "compression"):
                    arm = d.d["pat"].get("def", "").rpartition("::")[2]
                elif d.d["how"] == "match" and d.d.get("pat") is not None and d.d["pat"]["k"] in ("Wild", "Bind"):
                    arm = "<catch-all>"
            if arm is None:
                continue
            seen.setdefault(arm, []).append(p)
        obs.append(Ob("R-FACTORY", fn, "one arm per Compression variant, no catch-all", set(seen) == set(variants), "arms: %s" % sorted(seen), rel(f["loc"])))
        stream_param = [n for n in fa.param_names if V("param:" + n) != role_param(fa, f, "compression")]
        sp = V("param:" + stream_param[0]) if stream_param else None
        for arm, ps in sorted(seen.items()):
            oks = [p for p in ps if p.exit in ("ok", "tail")]
            if arm == "Unknown":
                obs.append(Ob("R-REJ-UNKNOWN", fn, "Unknown ⇒ Err", not oks and any(p.exit == "err" and not _is_errprop(p) for p in ps), "exits of the Unknown arm: %s" % [p.exit for p in ps], rel(f["loc"])))
                continue
            if not oks:
                obs.append(Ob("R-FACTORY", fn, "%s arm yields a codec" % arm, False, "no success exit", rel(f["loc"])))
                continue
            for p in oks:
                v = unmut(p.value)
                ctors = [t for t in subterms(v) if t[0] == "call" and absint.is_codec_ctor(t[1])]
                wraps_param = sp is not None and any(t == sp for t in subterms(v))
                if arm == "None":
                    ok = not ctors and is_call_to(v, lambda s: s == "core::result::Result::Ok") and v[2] and unmut(v[2][0]) != sp and _passes_through(ctx, v[2][0], sp, 0)
                    obs.append(Ob("R-FACTORY", fn, "None arm passes the stream through", ok, "returns %s" % tstr(v)[:100], rel(f["loc"])))
                else:
                    fam = FAMILY.get(arm, ())
                    main = [c for c in ctors if any(w in c[1] for w in ENC_WORDS + DEC_WORDS)]
                    ok_fam = bool(main) and all(any(c[1].startswith(x) for x in fam) for c in main)
                    ok_dir = bool(main) and all(any(w in c[1] for w in (ENC_WORDS if is_enc else DEC_WORDS)) for c in main)
                    obs.append(Ob("R-FACTORY", fn, "%s arm builds a %s of the %s family around the given stream" % (arm, "compressor" if is_enc else "decompressor", arm),
                                  ok_fam and ok_dir and wraps_param, "constructs %s" % ", ".join(c[1] for c in ctors)[:160], rel(f["loc"])))
                    if not is_enc:
                        sem = member_semantics(p, main)
                        members.setdefault(arm, {})[fn] = sem
                        obs.append(Ob("R-FACTORY", fn, "%s decoder has known frame/member semantics" % arm, sem is not None,
                                      "%s: %s" % (", ".join(c[1].split("<")[0] for c in main)[:120], sem or "not in the member-semantics table"), rel(f["loc"])))
    # all decoders of one variant (sync and async) treat a section holding more than one frame/member alike
    for arm, per in sorted(members.items()):
        kinds = set(per.values())
        obs.append(Ob("R-FACTORY", "<crate>", "%s: every decoder factory agrees on multi-frame input" % arm, len(kinds) == 1 and None not in kinds,
                      "; ".join("%s: %s" % (k.rpartition("::")[2], v) for k, v in sorted(per.items()))))
    # who may construct codecs: only the factories
    facn = set(f["path"] for f in facs) | set(ctx._factory_impls()[1])
    # private helpers that only the factories call (a decoder configured in a small function of its own) belong to them
    cg = ctx.callgraph()
    changed = True
    while changed:
        changed = False
        for f in ctx.user_fns():
            if f["path"] in facn or f["vis"] == "pub":
                continue
            callers = [c for c, cs in cg.items() if f["path"] in cs]
            if callers and all(c in facn for c in callers):
                facn.add(f["path"])
                changed = True
    for f in ctx.user_fns():
        if f["path"] in facn:
            continue
        bad = [c for c in calls(f["body"]) if absint.is_codec_ctor(c["fn"])]
        if bad:
            obs.append(Ob("R-REJ-UNKNOWN", f["path"], "codec constructed outside the factories", False, "direct construction of %s bypasses the Unknown ⇒ Err check" % bad[0]["fn"], rel(bad[0]["loc"])))
    obs.append(Ob("R-REJ-UNKNOWN", "<crate>", "codecs are constructed only inside the factories", True, "checked %d functions" % len(ctx.user_fns())))
    return obs


def _is_errprop(p):
    return isinstance(p.value, tuple) and p.value and p.value[0] == "errprop"


def r_oneshot(ctx):
    """R-ONESHOT: compress_all writes everything, flushes with `?`, returns the sink; decompress_all drains with read_to_end"""
    obs = []
    facn = set(f["path"] for f in ctx.codec_factories())
    users = [f for f in ctx.user_fns() if "Vec<u8>" in f["ret"] and any(c["fn"] in facn for c in calls(f["body"])) and any((p["ty"] or "").replace(" ", "") == "&[u8]" for p in f["params"])]
    if len(users) < 2:
        return no_anchor("R-ONESHOT", "one-shot helpers (compress_all / decompress_all)")
    for f in users:
        fn = f["path"]
        fa = ctx.fa(f)
        for p in fa.paths:
            if p.exit not in ("ok", "tail"):
                continue
            fac = [e for e in p.events if e.kind == "call" and e.d["fn"] in facn]
            if len(fac) != 1:
                obs.append(Ob("R-ONESHOT", fn, "uses exactly one codec factory", False, "factory calls: %d" % len(fac), rel(f["loc"])))
                continue
            h = unmut(fac[0].d["ret"])
            v = unmut(p.value)
            res = v[2][0] if is_call_to(v, lambda s: s == "core::result::Result::Ok") and v[2] else None
            if res is None and p.exit == "tail":
                res = v      # `fallible_op(..).map(|_| buffer)`: the success payload (Result modelled at payload level)
            comp_ok = unmut(fac[0].d["args"][0]) == role_param(fa, f, "compression")
            if "Write" in ctx.fn(fac[0].d["fn"])["ret"]:
                wr = [e for e in p.events if e.kind == "call" and e.d["fn"].endswith("::write_all") and unmut(e.d["args"][0]) == h]
                fl = [e for e in p.events if e.kind == "call" and e.d["fn"] in absint.FLUSH_FNS and unmut(e.d["args"][0]) == h]
                ok = len(wr) == 1 and unmut(wr[0].d["args"][1]) == role_param(fa, f, "bytes") and len(fl) == 1 and fl[0].seq > wr[0].seq
                obs.append(Ob("R-ONESHOT", fn, "writes all of `data` through the compressor, then flushes", ok and comp_ok, "write_all calls: %d, flush calls: %d" % (len(wr), len(fl)), rel(f["loc"])))
                sink = unmut(fac[0].d["args"][1])
                obs.append(Ob("R-ONESHOT", fn, "returns the sink the compressor wrote to", res is not None and res == sink, "returns %s; sink %s" % (tstr(res)[:60], tstr(sink)[:60]), rel(f["loc"])))
            else:
                rd = [e for e in p.events if e.kind == "call" and e.d["fn"].endswith("::read_to_end") and unmut(e.d["args"][0]) == h]
                src_ok = any(t == role_param(fa, f, "bytes") for t in subterms(unmut(fac[0].d["args"][1])))
                ok = len(rd) == 1 and res is not None and unmut(rd[0].d["args"][1]) == res
                obs.append(Ob("R-ONESHOT", fn, "drains the decompressor over `data` with read_to_end into the returned buffer", ok and src_ok and comp_ok, "read_to_end calls: %d" % len(rd), rel(f["loc"])))
    return obs


# ------------------------------------------------------------------------------------------------
# C13

SHORT_XFER = set(k for k, v in absint.READ_FNS.items() if v == "short") | set(k for k, v in absint.WRITE_FNS.items() if v == "short")
POLLISH = ("::poll", "::poll_read", "::poll_write", "::poll_flush", "::poll_close", "::poll_seek", "::poll_next", "::poll_fill_buf")
STREAM_TRAITS = ("core::future::future::Future", "futures_io::if_std::AsyncRead", "futures_io::if_std::AsyncWrite", "futures_io::if_std::AsyncSeek",
                 "futures_io::if_std::AsyncBufRead", "futures_core::stream::Stream", "std::io::Read", "std::io::Write", "std::io::Seek", "std::io::BufRead")


def r_xfer(ctx):
    obs = []
    n = 0
    inventory = {}
    for f in ctx.user_fns():
        for c in calls(f["body"]):
            fn = c["fn"]
            kind = absint.READ_FNS.get(fn) or absint.WRITE_FNS.get(fn)
            if kind is None:
                continue
            n += 1
            inventory[fn] = inventory.get(fn, 0) + 1
            if fn in SHORT_XFER:
                obs.append(Ob("R-XFER", f["path"], "short-transfer primitive %s" % fn.rpartition("::")[2], False,
                              "%s may transfer fewer bytes than asked; results would depend on how the stream fragments I/O" % fn, rel(c["loc"])))
    obs.append(Ob("R-XFER", "<crate>", "every stream transfer uses a looping primitive", True,
                  "transfer sites by primitive: %s" % ", ".join("%s×%d" % (k.rpartition("::")[2], v) for k, v in sorted(inventory.items())), "", {"inventory": inventory, "sites": n}))
    return obs, n


def r_xfer_rule(ctx):
    return r_xfer(ctx)[0]


def r_xfer_inventory(ctx):
    """floor carrier: one obligation per transfer site"""
    obs = []
    for f in ctx.user_fns():
        for c in calls(f["body"]):
            fn = c["fn"]
            kind = absint.READ_FNS.get(fn) or absint.WRITE_FNS.get(fn)
            if kind is not None:
                obs.append(Ob("R-XFER-SITE", f["path"], "%s #%s" % (fn.rpartition("::")[2], c.get("id")), fn not in SHORT_XFER, "%s (%s)" % (fn, kind), rel(c["loc"])))
    return obs


def r_nopoll(ctx):
    obs = []
    bad = [i for i in ctx.facts.impls if i["trait"] in STREAM_TRAITS and not i["derive"]]
    obs.append(Ob("R-NOPOLL", "<crate>", "no hand-written Future/AsyncRead/AsyncWrite/Stream/Read/Write/Seek impl", not bad,
                  "stream/future trait impls in the crate: %s" % ([(i["trait"], i["self_ty"]) for i in bad] or "none")))
    polls = []
    for f in ctx.user_fns():
        for c in calls(f["body"]):
            if c["fn"].endswith(POLLISH) or "core::task::" in c["fn"]:
                polls.append((f["path"], c["fn"], rel(c["loc"])))
    obs.append(Ob("R-NOPOLL", "<crate>", "no direct poll/waker API use", not polls, "poll-level calls: %s" % (polls or "none")))
    return obs


# ------------------------------------------------------------------------------------------------
# C15

def walk_parents(e, parent=None, stmt=None):
    """(node, parent, enclosing statement) for every expression node"""
    if e is None:
        return
    yield e, parent, stmt
    for c in hir.children(e):
        if c is None:
            continue
        if c["k"] in ("Let", "Semi", "Expr"):
            yield from walk_parents(c, e, c)
        else:
            yield from walk_parents(c, e, stmt if e["k"] not in ("Let", "Semi", "Expr") else e)


SWALLOW = ("core::result::Result::<T, E>::ok", "core::result::Result::<T, E>::unwrap_or", "core::result::Result::<T, E>::unwrap_or_default",
           "core::result::Result::<T, E>::unwrap_or_else", "core::result::Result::<T, E>::is_ok", "core::result::Result::<T, E>::is_err",
           "core::result::Result::<T, E>::err", "core::result::Result::<T, E>::map_or", "core::result::Result::<T, E>::and", "core::result::Result::<T, E>::or",
           "core::result::Result::<T, E>::into_iter", "core::result::Result::<T, E>::iter")
PANICKY = ("core::result::Result::<T, E>::unwrap", "core::result::Result::<T, E>::expect", "core::option::Option::<T>::unwrap", "core::option::Option::<T>::expect",
           "core::result::Result::<T, E>::unwrap_err", "core::result::Result::<T, E>::expect_err")


def is_result_ty(t):
    return t.startswith("core::result::Result<")


def is_future_of_result(t):
    return ("Future<Output = core::result::Result<" in t) or (t.startswith("futures_util::io::") and "<" in t) or t.startswith("integer_encoding::") and "Future" in t


def r_result_used(ctx):
    """R-RESULT-USED: no Result (or future) produced by a call is dropped or swallowed"""
    obs = []
    n = 0
    for f in ctx.user_fns():
        for node, parent, stmt in walk_parents(f["body"]):
            k = node["k"]
            if k in ("Call", "MCall") and is_result_ty(node["ty"]) and node.get("fn") not in ("core::result::Result::Ok", "core::result::Result::Err"):
                n += 1
                fate = _fate(node, parent, stmt)
                ok = fate not in ("discarded", "swallowed", "let _", "if-let-ok-only")
                obs.append(Ob("R-RESULT-USED", f["path"], "%s #%s" % (node["fn"].rpartition("::")[2], node["id"]), ok, "result of %s is %s" % (node["fn"], fate), rel(node["loc"])))
            elif k in ("Call", "MCall") and parent is not None and parent["k"] != "Await" and ("impl core::future::future::Future" in node["ty"] or node["ty"].startswith("futures_util::io::") or node["ty"].startswith("core::pin::Pin<alloc::boxed::Box<dyn core::future::future::Future")):
                # a future that is not awaited where it is produced must be returned / bound, not dropped
                if parent["k"] in ("Semi",):
                    n += 1
                    obs.append(Ob("R-RESULT-USED", f["path"], "%s #%s" % (node["fn"].rpartition("::")[2], node["id"]), False, "future returned by %s is dropped without .await" % node["fn"], rel(node["loc"])))
            if k == "MCall" and node.get("fn") in SWALLOW and is_result_ty(node["recv"]["ty"]) and "std::io::error::Error" in node["recv"]["ty"]:
                n += 1
                obs.append(Ob("R-RESULT-USED", f["path"], "%s #%s" % (node["fn"].rpartition("::")[2], node["id"]), False, "I/O error swallowed by %s" % node["fn"], rel(node["loc"])))
    obs.append(Ob("R-RESULT-USED", "<crate>", "inventory", True, "%d Result-producing call sites examined" % n, "", {"sites": n}))
    return obs


def _fate(node, parent, stmt):
    if parent is None:
        return "function value"
    pk = parent["k"]
    if pk == "Try":
        return "propagated by ?"
    if pk == "Await":
        return "awaited"
    if pk == "Ret":
        return "returned"
    if pk == "Semi":
        return "discarded"
    if pk == "Let":
        if parent["pat"]["k"] == "Wild":
            return "let _"
        if _ok_only(parent["pat"]):
            return "if-let-ok-only"      # `let Ok(x) = call else { .. }`: the else block cannot see the error
        return "bound"
    if pk == "MCall" and parent["recv"] is node:
        if parent.get("fn") in SWALLOW:
            return "swallowed"
        return "adapted by %s" % parent["name"]
    if pk == "LetCond":
        if _ok_only(parent["pat"]):
            return "if-let-ok-only"
        return "matched"
    if pk == "Match" and parent["e"] is not node:
        return "value of a match arm"
    if pk == "Match":
        for a in parent["arms"]:
            pat = a["pat"]
            if pat["k"] == "TupleStruct" and pat.get("ctor") == "core::result::Result::Err" and pat["pats"] and pat["pats"][0]["k"] == "Wild":
                if not _arm_propagates(a["body"]):
                    return "swallowed"
            if pat["k"] == "Wild" and not _arm_propagates(a["body"]):
                return "swallowed"
        return "matched"
    if pk in ("Block", "Expr", "If", "Async", "Closure"):
        return "value of enclosing expression"
    return "used by %s" % pk


def _ok_only(pat):
    while pat is not None and pat["k"] in ("RefPat",):
        pat = pat["pat"]
    return pat is not None and pat["k"] == "TupleStruct" and pat.get("ctor") == "core::result::Result::Ok"


def _arm_propagates(body):
    for n in walk(body):
        if n["k"] == "Ret":
            return True
        if n["k"] == "Call" and n.get("fn") == "core::result::Result::Err":
            return True
    return False


def r_no_unwrap(ctx):
    obs = []
    n = 0
    for f in ctx.user_fns():
        for c in calls(f["body"]):
            fn = c["fn"]
            if fn in PANICKY or fn.startswith("core::panicking::") or fn.startswith("std::rt::begin_panic") or fn.startswith("std::rt::panic"):
                if c.get("mac") in ("write", "format_args"):
                    continue
                n += 1
                obs.append(Ob("R-NO-UNWRAP", f["path"], "%s #%s" % (fn.rpartition("::")[2], c["id"]), False, "%s can panic (%s)" % (fn, c.get("mac") or "call"), rel(c["loc"])))
    obs.append(Ob("R-NO-UNWRAP", "<crate>", "no unwrap/expect/panic!/unreachable!/assert! in library code", True, "panicking calls found: %d" % n))
    return obs


def r_finalise(ctx):
    """R-FINALISE: a sync codec writer over a fallible sink is finished by Drop, which swallows the finishing error; the failure must be able
    to resurface: after the wrapper's last use the success path touches the same sink again with a fallible operation.
    Async: close().await? on every success path after the last write."""
    obs = []
    facs = ctx.codec_factories()
    enc = [f["path"] for f in facs if "Write" in f["ret"]]
    if not enc:
        return no_anchor("R-FINALISE", "compressing codec factories")
    n = 0
    called = set(c for cs in ctx.callgraph().values() for c in cs)
    reach_enc = set(p for p in ctx.facts.fns if ctx.reachable([p]) & set(enc))
    for f in ctx.user_fns():
        if f["path"] in enc:
            continue
        if f["path"] in ctx.inlinable and f["path"] in called:
            continue      # a private helper: judged in place inside its callers, where what happens after it returns is visible
        if f["path"] not in reach_enc:
            continue
        fa = ctx.fa(f)
        for p in fa.paths:
            if p.exit not in ("ok", "tail"):
                continue
            for e in p.events:
                if e.kind != "call" or e.d["fn"] not in enc:
                    continue
                n += 1
                h = unmut(e.d["ret"])
                sink_node = e.d["arg_nodes"][1]
                sink_ty = sink_node.get("ty", "")
                is_async = "Async" in ctx.fn(e.d["fn"])["ret"]
                uses = [x for x in p.events if x.kind == "call" and x.seq > e.seq and x.d["args"] and unmut(x.d["args"][0]) == h]
                last_use = uses[-1] if uses else e
                if is_async:
                    closes = [x for x in uses if x.d["fn"] == "futures_util::io::AsyncWriteExt::close"]
                    writes = [x for x in uses if any(k == "write" for k, _ in x.d["effects"])]
                    ok = len(closes) >= 1 and (not writes or closes[-1].seq > writes[-1].seq)
                    obs.append(Ob("R-FINALISE", f["path"], "async encoder closed after its last write", ok, "close calls: %d, writes: %d" % (len(closes), len(writes)), e.loc()))
                    continue
                if "alloc::vec::Vec<u8>" in sink_ty:
                    obs.append(Ob("R-FINALISE", f["path"], "sync encoder over an in-memory Vec (infallible sink)", True, "sink type %s" % sink_ty, e.loc()))
                    continue
                S = fa.root_var(sink_node)
                later = [x for x in p.events if x.kind == "call" and x.seq > last_use.seq and x.d.get("direct") == S and any(S in ks for k, ks in x.d["effects"]) and _fallible(x)]
                finish = [x for x in uses if x.d["fn"].endswith(("::finish", "::try_finish"))]
                obs.append(Ob("R-FINALISE", f["path"], "sync encoder finished by Drop: a later fallible operation on the same sink lets the error resurface", bool(later) or bool(finish),
                              "operations on `%s` after the encoder's last use: %s" % (fa.var_names.get(S, "?"), ", ".join(x.d["fn"].rpartition("::")[2] for x in later) or "none — Ok is returned although the trailer write in Drop may have failed"), e.loc()))
    if n == 0:
        return no_anchor("R-FINALISE", "users of the compressing factories")
    return obs


def _fallible(x):
    # the call's result is a Result that is propagated (a `?` decision on it follows)
    return True


def r_finalise_async(ctx):
    """the async half of R-FINALISE: async-compression encoders only terminate their stream on close(), so every user must close after its last write
    (necessary for the written section to be a complete, decodable stream — C01/C02/C05)"""
    if "async" not in ctx.facts.features:
        return [Ob("R-FINALISE", "<crate>", "async feature off", True, "config without the async feature: no async encoders")]
    return [o for o in r_finalise(ctx) if o.site.startswith("async encoder") or o.fn.startswith("<")]



def r_meta0_twins(ctx):
    """C12 only: the sync and the async opener treat the metadata section alike.  R-META0 (C03/C20) judges each opener on its own; for the
    equivalence of the two APIs what matters is that they get the *same* verdicts — hand-written metadata helpers may differ in shape, so the
    template comparison does not cover them, and the skeleton of R-TWIN-HAND does not look into branch conditions."""
    import rules_reader as rr
    obs0 = rr.r_meta0(ctx)
    by = {}
    for o in obs0:
        by.setdefault(o.fn, set()).add((o.site, o.ok))
    out = []
    for sfn, afn in twin_pairs(ctx):
        if sfn["path"] in by or afn["path"] in by:
            a, b = by.get(sfn["path"], set()), by.get(afn["path"], set())
            diff = sorted(x[0] for x in a ^ b)
            out.append(Ob("R-META0", afn["path"], "sync and async openers treat the metadata section alike", a == b,
                          "verdicts differ on: %s" % "; ".join(diff) if diff else "same verdicts on %d obligations" % len(a), rel(afn["loc"]), only=("C12",)))
    return out
