"""Input-derived integer discipline (C08, C11, C07): R-TAINT-ARITH, R-TAINT-ALLOC, R-TAINT-INDEX, R-REC-BOUND,
R-RANGE-END, R-LEAF-SKIP, R-FILTER-GUARD, R-PARTIAL-SAME, R-ZXY-GUARD.

Taint = "may be computed from bytes of the input (or, for the lookup / partial-open clauses, from the caller's coordinates / range)".
The dependence relation over-approximates, so an *untainted* verdict is definite; tainted operations must be checked,
discharged by width, guarded on every path, or listed in the reasoned allow-table below.
"""
from rulebase import *
from rules_reader import iter_base
import absint
from absint import INT_BITS
from rules_writer import no_anchor, struct_field
from rules_reader import unmut, is_call_to, _conjuncts
from rules_dir import SPEC

DATA_SELF = ("directory::Entry", "directory::Directory", "header::Header", "tile_manager::TileManager<R>", "pmtiles::PMTiles<R>")
PARSE_FNS = ("deku::DekuRead::read", "serde_json::de::from_reader", "serde_json::de::from_slice", "serde_json::de::from_str")

# (function path, operator, why it cannot overflow/panic) — frozen after reading each site; keyed by function + operator + operand shape
ALLOW = [
    ("role:rle", "+", "tile_id",
     "last.tile_id + last.run_length: ids are distinct and ascending after the sort, so the sum is at most the current id"),
    ("role:rle", "+=", "run_length",
     "run_length += 1: needs more than 2^32 resident tiles with one content, outside the claim's budget"),
    ("role:dir_encoder", "-", "tile_id",
     "entry.tile_id − last_id: on the re-write path entries come from the layout pass (ascending ids); arbitrary Directory values are outside C08"),
    ("role:dir_encoder", "+", "offset",
     "entry.offset + 1 / + length: offsets produced by the layout pass are below data.len() ≤ 2^63"),
    ("role:tile_id", "*", "", "public helper with a documented domain (valid z/x/y); in-crate lookups establish z ≤ 31, x,y < 2^z first (R-ZXY-GUARD)"),
    ("role:tile_id", "+", "", "1 + Σ4^i + h < 2^63 for z ≤ 31 (callers guarded by R-ZXY-GUARD)"),
    ("role:tile_id", "pow", "", "4^i for i < z ≤ 31 fits (callers guarded by R-ZXY-GUARD)"),
    ("role:zxy", "-", "", "tile_id − base_id: find_z returned the zoom whose block contains the id, so base_id ≤ tile_id"),
    ("role:zxy", "+", "", "1 + Σ_{i<z} 4^i with z ≤ 31"),
    ("role:zxy", "pow", "", "4^i for i < z ≤ 31"),
    ("role:find_z", "+=", "", "acc += 4^i for i < MAX_Z = 32: Σ < 2^64 (constant-bounded loop)"),
    ("role:find_z", "pow", "", "4^i for i < 32 fits in u64"),
    ("role:valid_zxy", "<<", "", "1 << z is evaluated only after z < MAX_Z (short-circuit &&)"),
]
ALLOW_INDEX = [
    ("role:dir_decoder", "entries[i] for i in 0..num_entries: the vector received exactly num_entries pushes in the first pass, every other exit is an error return"),
]
_ROLE_FNS = {}
_SHARED = {}


def _install_roles(ctx):
    """the allow-table is keyed by what a function *is* (located like the rules locate it), not by what it is called"""
    import rules_dir as _rd
    r = {}
    r["role:rle"] = set(f["path"] for f in ctx.rle_fns())
    r["role:dir_encoder"] = set(f["path"] for f in _rd.dir_encoders(ctx))
    r["role:dir_decoder"] = set(f["path"] for f in _rd.dir_decoders(ctx))
    r["role:tile_id"] = set(f["path"] for f in ctx.user_fns() if any("xy2h_discrete" in c["fn"] for c in calls(f["body"])))
    r["role:zxy"] = set(f["path"] for f in ctx.user_fns() if any("h2xy_discrete" in c["fn"] for c in calls(f["body"])))
    r["role:find_z"] = set(f["path"] for f in ctx.user_fns() if "MaxZError" in f["ret"] and "Result<u8" in f["ret"])
    r["role:valid_zxy"] = set(f["path"] for f in ctx.user_fns() if f["ret"] == "bool" and len(f["params"]) == 3 and all((p_.get("ty") or "") in ("u8", "u64") for p_ in f["params"]))
    # private helpers of a role function that the interpreter evaluates in place are judged as part of it (owner = the caller); helpers that are
    # analysed on their own inherit the role of their only callers
    cg = ctx.callgraph()
    for role, fns in list(r.items()):
        for f in ctx.user_fns():
            if f["vis"] != "pub" and f["path"] not in fns:
                callers = [c for c, cs in cg.items() if f["path"] in cs]
                if callers and all(c in fns for c in callers):
                    fns.add(f["path"])
    # a private helper shared by several role functions (one zoom-base helper for both directions of the id mapping) is judged under every
    # caller's role: an operation in it is allowed only when each of those roles allows it
    _SHARED.clear()
    for f in ctx.user_fns():
        if f["vis"] != "pub" and not any(f["path"] in fns for fns in r.values()):
            callers = [c for c, cs in cg.items() if f["path"] in cs]
            roles = [set(role for role, fns in r.items() if c in fns) for c in callers]
            if callers and all(roles):
                _SHARED[f["path"]] = roles
    _ROLE_FNS.clear()
    _ROLE_FNS.update(r)


def _in_role(role, fnpath):
    return fnpath in _ROLE_FNS.get(role, ()) if role.startswith("role:") else role == fnpath


def bits_of(fa, t, ty=None):
    """upper bound on significant bits of an unsigned value (width domain A3b); None = unknown/full width of its type"""
    if not isinstance(t, tuple) or not t:
        return None
    if t[0] == "c":
        return max(1, int(t[1]).bit_length()) if t[1] >= 0 else None
    if t[0] == "cast":
        inner = bits_of(fa, t[2], t[3] if len(t) > 3 else None)
        src = INT_BITS.get(t[3]) if len(t) > 3 else None
        if src is not None and not (t[3] or "").startswith("i"):
            inner = min(inner, src) if inner is not None else src
        tb = INT_BITS.get(t[1])
        if inner is None:
            return None
        return min(inner, tb) if tb else inner
    if t[0] == "bin":
        a, b = bits_of(fa, t[2]), bits_of(fa, t[3])
        if a is None or b is None:
            return None
        if t[1] == "+":
            return max(a, b) + 1
        if t[1] == "*":
            return a + b
        if t[1] in ("-", "/", "%"):
            return a
    if t[0] == "call" and t[1] == "len":
        return 63
    return None


class Taint:
    def __init__(self, ctx, extra_sources=None):
        self.ctx = ctx
        self.extra = extra_sources or {}
        self.tparams = set()
        self.readers = set(p for p, s in ctx.summaries.items() if any("read" in e for e in s.values()))
        self._fix()

    def base_tainted(self, fa, leaf):
        if leaf[0] == "call":
            fn = leaf[1]
            if fn in absint.READ_FNS or fn in PARSE_FNS or fn in self.readers:
                return True
            return False
        if leaf[0] == "v":
            nm = leaf[1]
            if nm.startswith("param:"):
                pn = nm[6:]
                if pn == "self" and (fa.fn.get("self_ty") or "") in DATA_SELF:
                    return True
                if (fa.fn["path"], pn) in self.tparams:
                    return True
                if pn in self.extra.get(fa.fn["path"], ()):
                    return True
            return False
        return False

    def value_deps(self, fa, t):
        """like fa.deps, but sizes of resident objects (`x.len()`) and stream positions are benign quantities: they are bounded by
        what exists in memory / in the stream, not by an integer an attacker chose"""
        seen = set()
        out = set()
        work = [t]
        while work:
            x = work.pop()
            if not isinstance(x, tuple) or not x or x in seen:
                continue
            seen.add(x)
            tag = x[0]
            if tag == "call" and x[1] == "len":
                continue
            if tag == "v":
                nm = x[1]
                if nm.startswith(("pos0:", "sigma:", "looppos", "seekres:", "posq:")):
                    continue
                out.add(x)
                for src in fa.havoc_src.get(x, ()):
                    work.append(src)
                continue
            if tag == "call":
                if x[3] is not None:
                    out.add(x)
                work.extend(x[2])
            elif tag in ("f", "proj", "elem", "mut"):
                if tag != "mut":
                    out.add(x)
                elif x in getattr(fa, "read_filled", {}):
                    work.append(fa.read_filled[x])      # the buffer holds what that read delivered
                work.append(x[1])
            elif tag == "idx":
                out.add(x)
                work.append(x[1])
                work.append(x[2])
            elif tag == "bin":
                work.append(x[2])
                work.append(x[3])
            elif tag in ("un", "cast"):
                work.append(x[2])
            elif tag in ("tup", "arr"):
                work.extend(x[1])
            elif tag == "struct":
                work.extend(v for _, v in x[2])
                if x[3] is not None:
                    work.append(x[3])
            elif tag == "clos":
                work.extend(x[2])
        return out

    def tainted(self, fa, t):
        if t is None:
            return False
        for lf in self.value_deps(fa, t):
            if self.base_tainted(fa, lf):
                return True
        return False

    def why(self, fa, t):
        out = []
        for lf in self.value_deps(fa, t):
            if self.base_tainted(fa, lf):
                out.append(tstr(lf)[:50])
        return sorted(set(out))[:4]

    def _fix(self):
        changed = True
        rounds = 0
        while changed and rounds < 12:
            changed = False
            rounds += 1
            for f in self.ctx.user_fns():
                try:
                    fa = self.ctx.fa(f)
                except PathExplosion:
                    continue
                for p in fa.paths:
                    for e in p.events:
                        if e.kind != "call" or e.d["fn"] not in self.ctx.facts.fns:
                            continue
                        callee = self.ctx.fn(e.d["fn"])
                        if callee is None:
                            continue
                        cfa = self.ctx.fa(callee)
                        any_t = any(self.tainted(fa, a) for a in e.d["args"])
                        for i, a in enumerate(e.d["args"]):
                            # containers passed alongside tainted values are filled with them (contents are not tracked separately)
                            container = any_t and i < len(e.d["tys"]) and ("Vec<" in e.d["tys"][i] or "HashMap<" in e.d["tys"][i])
                            if i < len(cfa.param_names) and (container or self.tainted(fa, a)):
                                names = [cfa.param_names[i]]
                                if names[0].startswith("#"):
                                    # a destructuring parameter pattern: the names it binds
                                    names += _pat_names(callee["params"][i].get("pat")) if i < len(callee["params"]) else []
                                for nmx in names:
                                    key = (callee["path"], nmx)
                                    if key not in self.tparams:
                                        self.tparams.add(key)
                                        changed = True


def _pat_names(pat):
    out = []
    if not isinstance(pat, dict):
        return out
    if pat.get("k") == "Bind" and pat.get("name"):
        out.append(pat["name"])
        out += _pat_names(pat.get("sub"))
    for key in ("pats",):
        for q in pat.get(key) or []:
            out += _pat_names(q)
    for fl in pat.get("fields") or []:
        out += _pat_names(fl.get("pat"))
    if pat.get("k") in ("RefPat", "GuardPat"):
        out += _pat_names(pat.get("pat"))
    return out


def default_sources(ctx):
    """caller-chosen integers that the properties quantify over: the coordinates of the lookups, the id handed to the back-conversion.
    Found by role, not by name: public archive functions that reach the coordinate→id conversion (all their integer parameters), and the function
    that calls the inverse curve (likewise)."""
    src = {}
    enc = set(f["path"] for f in ctx.user_fns() if any("xy2h_discrete" in c["fn"] for c in calls(f["body"])))

    def ints(f):
        return tuple(p["pat"]["name"] for p in f["params"] if p["pat"].get("k") == "Bind" and (p["ty"] or "") in absint.INT_TYPES)
    for f in ctx.user_fns():
        if f["vis"] == "pub" and f["path"] not in enc and (ctx.calls_deep(f) & enc) and len(ints(f)) >= 3:
            src[f["path"]] = ints(f)
        if any("h2xy_discrete" in c["fn"] for c in calls(f["body"])) and ints(f):
            src[f["path"]] = ints(f)
    return src


def _taint(ctx, extra=None):
    if extra is None:
        extra = default_sources(ctx)
    key = ("taint", tuple(sorted((k, tuple(v)) for k, v in (extra or {}).items())))
    if key not in ctx._roles:
        ctx._roles[key] = Taint(ctx, extra)
    return ctx._roles[key]


def _guard_atoms(p, upto, ev=None):
    """atomic boolean facts that hold when event `ev` executes: decisions taken earlier on the path plus the short-circuit conditions enclosing it"""
    for d in p.decisions(upto):
        if d.d["how"] not in ("if",):
            # comparisons established by pattern matching (literal / range patterns, let-else …) count like `if` tests
            for fct in decision_facts(d):
                if fct[0] == "rel" and fct[1] in ("<", "<=", ">", ">=", "==", "!="):
                    yield ("bin", fct[1], unmut(fct[2]), unmut(fct[3])), True
                elif fct[0] == "eq" and isinstance(fct[2], int) and not isinstance(fct[2], bool):
                    yield ("bin", "==", unmut(fct[1]), C(fct[2])), True
            continue
        yield from _atoms_with_polarity(unmut(d.d["cond"]), d.d["outcome"] is True)
    if ev is not None:
        for (c, truth) in ev.d.get("sc", ()):
            yield from _atoms_with_polarity(unmut(c), truth)


def guard_ge(p, upto, l, r, ev=None):
    """a decision before `upto` on this path implies l ≥ r (so `l − r` cannot underflow)"""
    la = affine(unmut(l))
    ra = affine(unmut(r))
    if True:
        for c, pol in _guard_atoms(p, upto, ev):
            if c[0] != "bin":
                continue
            op, a, b = c[1], affine(c[2]), affine(c[3])
            if not pol:
                op = {"<": ">=", "<=": ">", ">": "<=", ">=": "<", "==": "!=", "!=": "=="}.get(op, op)
            if op == "!=" and (b == (0, {}) or a == (0, {})):
                # an unsigned value that is not 0 is at least 1
                if a == (0, {}):
                    a, b = b, a
                op = ">"
            # a OP b  ⇒ l ≥ r ?
            if op in (">", ">=") and aff_eq(a, la):
                diff = aff_sub(b, ra)   # b − r, need b ≥ r (for >: b + 1 ≥ r)
                if not diff[1] and (diff[0] >= 0 or (op == ">" and diff[0] >= -1)):
                    return True
            if op in ("<", "<=") and aff_eq(b, la):
                diff = aff_sub(a, ra)
                if not diff[1] and (diff[0] >= 0 or (op == "<" and diff[0] >= -1)):
                    return True
            if op == "!=" and not ra[1] and ra[0] == 1 and ((aff_eq(a, la) and b == (0, {})) or (aff_eq(b, la) and a == (0, {}))):
                return True
    return False


def _atoms_with_polarity(c, truth):
    """atomic comparisons that definitely hold: conjuncts of a true `&&`, disjuncts of a false `||`"""
    if c[0] == "un" and c[1] == "!":
        yield from _atoms_with_polarity(c[2], not truth)
    elif c[0] == "bin" and c[1] == "&&" and truth:
        yield from _atoms_with_polarity(c[2], True)
        yield from _atoms_with_polarity(c[3], True)
    elif c[0] == "bin" and c[1] == "||" and not truth:
        yield from _atoms_with_polarity(c[2], False)
        yield from _atoms_with_polarity(c[3], False)
    elif c[0] == "bin" and c[1] in ("&&", "||"):
        return
    else:
        yield c, truth


def guard_le_const(p, upto, l, ev=None):
    """largest K such that a decision before `upto` implies l ≤ K (else None)"""
    la = affine(unmut(l))
    best = None
    if True:
        for c, pol in _guard_atoms(p, upto, ev):
            if c[0] != "bin":
                continue
            op, a, b = c[1], affine(c[2]), affine(c[3])
            if not pol:
                op = {"<": ">=", "<=": ">", ">": "<=", ">=": "<"}.get(op)
            if op is None:
                continue
            K = None
            # the tested quantity may be l plus a constant (`let next = depth + 1; if next > MAX { .. }`): same variable part, constant offset
            if a[1] == la[1] and a[1] and not b[1]:
                off = a[0] - la[0]
                K = (b[0] - off) if op == "<=" else (b[0] - 1 - off if op == "<" else None)
            elif b[1] == la[1] and b[1] and not a[1]:
                off = b[0] - la[0]
                K = (a[0] - off) if op == ">=" else (a[0] - 1 - off if op == ">" else None)
            if K is not None:
                best = K if best is None else min(best, K)
    return best


SHAPE_ALLOW = [
    # (operator, predicate on (left, right) terms, reason)
    ("+", lambda l, r: _is_field(l, "tile_id") and _is_field(_strip_cast(r), "run_length") and l[1] == _strip_cast(r)[1] and _is_last_of_vec(l[1]),
     "last.tile_id + last.run_length for the last entry of the list being laid out: ids are distinct and ascending after the sort, so the sum is at most the next id"),
    ("+=", lambda l, r: _is_field(l, "run_length") and r == C(1) and _is_last_of_vec(l[1]), "run_length += 1 on the last laid-out entry: needs more than 2^32 resident tiles with one content"),
    ("+", lambda l, r: _is_field(l, "run_length") and r == C(1) and _is_last_of_vec(l[1]), "run_length + 1 (compound form) on the last laid-out entry"),
]


def _is_last_of_vec(x):
    """the term denotes `v.last_mut()` / `v.last()` of a vector (the layout pass's own entry list), not an entry decoded from input"""
    x = unmut(x)
    return is_call_to(x, lambda s: s.endswith(("::last_mut", "::last")))


def _is_field(t, name):
    t = unmut(t) if t is not None else t
    return isinstance(t, tuple) and len(t) == 3 and t[0] == "f" and t[2] == name


def allowed(fnpath, opname, l, r):
    for (op, pred, why) in SHAPE_ALLOW:
        try:
            if op == opname and pred(unmut(l), unmut(r) if r is not None else None):
                return why
        except Exception:
            pass
    def by_role(in_role):
        for (fn, op, needle, why) in ALLOW:
            if in_role(fn) and op == opname:
                if not needle or needle in tstr(l) or (r is not None and needle in tstr(r)):
                    return why
        return None
    w = by_role(lambda fn: _in_role(fn, fnpath))
    if w is None and fnpath in _SHARED:
        ws = [by_role(lambda fn, rs=rs: fn in rs) for rs in _SHARED[fnpath]]
        if all(ws):
            return "; ".join(sorted(set(ws)))
    return w


def r_taint_arith(ctx, extra=None, rule="R-TAINT-ARITH", only_fns=None):
    obs = []
    _install_roles(ctx)
    tn = _taint(ctx, extra)
    per_node = {}
    called = set(c for cs in ctx.callgraph().values() for c in cs)
    for f in ctx.user_fns():
        if only_fns is not None and f["path"] not in only_fns:
            continue
        if f["path"] in ctx.inlinable and f["path"] in called:
            continue   # a private effect-free helper: analysed in place inside each of its callers
        try:
            fa = ctx.fa(f)
        except PathExplosion:
            obs.append(Ob(rule, f["path"], "paths", False, "path explosion", rel(f["loc"])))
            continue
        for p in fa.paths:
            for e in p.events:
                if e.kind != "arith":
                    continue
                lty = e.d.get("lty") or ""
                if lty.lstrip("&") not in INT_BITS:
                    continue
                l, r = e.d["l"], e.d["r"]
                tl, tr = tn.tainted(fa, l), (tn.tainted(fa, r) if r is not None else False)
                if not (tl or tr):
                    continue
                # events of a helper that was evaluated in place are judged in the caller's context (operands are the caller's terms)
                owner = f["path"]
                key = (owner, e.node.get("id"))
                op = e.d["op"] + ("=" if e.d.get("compound") else "")
                verdict, why = None, ""
                if e.d["flavour"] != "plain":
                    verdict, why = True, "%s arithmetic" % e.d["flavour"]
                else:
                    W = INT_BITS.get(lty.lstrip("&"))
                    signed = lty.lstrip("&").startswith("i")
                    if e.d["op"] in ("+", "*") and not signed:
                        b = bits_of(fa, ("bin", e.d["op"], l, r))
                        if b is not None and b <= W:
                            verdict, why = True, "width: result needs at most %d of %d bits" % (b, W)
                        if verdict is None and e.d["op"] == "+":
                            kl, kr = guard_le_const(p, e.seq, l, e), (r[1] if r[0] == "c" else guard_le_const(p, e.seq, r, e))
                            if kl is not None and kr is not None and kl + kr < (1 << W):
                                verdict, why = True, "guarded: operands bounded by %d and %d" % (kl, kr)
                    if verdict is None and e.d["op"] == "-" and not signed and guard_ge(p, e.seq, l, r, e):
                        verdict, why = True, "guarded: a decision on this path implies left ≥ right"
                    if verdict is None and e.d["op"] in ("<<", ">>"):
                        k = guard_le_const(p, e.seq, _strip_cast(unmut(r)), e) if r[0] != "c" else r[1]
                        if k is not None and k < W:
                            verdict, why = True, "guarded: shift amount ≤ %d < %d" % (k, W)
                    if verdict is None and e.d["op"] in ("/", "%") and r is not None and r[0] == "c" and r[1] != 0:
                        verdict, why = True, "division by a non-zero constant"
                    if verdict is None:
                        a = allowed(owner, op, l, r) or allowed(owner, e.d["op"], l, r)
                        if a:
                            verdict, why = True, "allow-table: " + a
                    if verdict is None:
                        verdict = False
                        why = "unchecked `%s` on input-derived operands (%s) with no guard on this path" % (op, ", ".join(tn.why(fa, l) + (tn.why(fa, r) if r is not None else [])))
                cur = per_node.get(key)
                if cur is None or (cur[0] and not verdict):
                    per_node[key] = (verdict, why, e, owner, op, l, r)
    for key, (verdict, why, e, fnp, op, l, r) in sorted(per_node.items(), key=lambda kv: (kv[1][3], kv[1][2].loc())):
        site = "%s %s %s" % (_shape(l), op, _shape(r))
        obs.append(Ob(rule, fnp, site, verdict, why, e.loc(), {"left": tstr(l)[:80], "right": tstr(r)[:80] if r is not None else None}))
    return obs


def _shape(t):
    """stable, name-light rendering of an operand for site keys"""
    if t is None:
        return "_"
    t = unmut(t)
    s = tstr(t)
    import re
    s = re.sub(r"#\d+", "", s)
    s = re.sub(r"loop\d+:", "loop:", s)
    s = re.sub(r"clos\d+:", "clos:", s)
    s = re.sub(r"sigma:\d+", "sigma", s)
    return s[:70]


def r_pow(ctx, extra=None, rule="R-TAINT-ARITH"):
    """`pow` on input-derived base/exponent"""
    obs = []
    tn = _taint(ctx, extra)
    seen = {}
    for f in ctx.user_fns():
        fa = ctx.fa(f)
        for p in fa.paths:
            for e in p.events:
                if e.kind == "call" and e.d["fn"].startswith("core::num::") and e.d["fn"].endswith("::pow"):
                    if not any(tn.tainted(fa, a) for a in e.d["args"]):
                        continue
                    a = allowed(f["path"], "pow", e.d["args"][0], e.d["args"][1])
                    k = guard_le_const(p, e.seq, e.d["args"][1])
                    base = e.d["args"][0]
                    okb = base[0] == "c" and k is not None and (base[1] ** k) < (1 << 64)
                    key = (f["path"], e.node.get("id"))
                    v = bool(a) or okb
                    if key not in seen or (seen[key][0] and not v):
                        seen[key] = (v, ("allow-table: " + a) if a else ("guarded exponent ≤ %s" % k if okb else "unchecked pow on input-derived exponent"), e, f["path"])
    for key, (v, why, e, fnp) in seen.items():
        obs.append(Ob(rule, fnp, "pow(%s)" % _shape(e.d["args"][1]), v, why, e.loc()))
    return obs


def r_taint_alloc(ctx, extra=None):
    obs = []
    tn = _taint(ctx, extra)
    seen = {}
    for f in ctx.user_fns():
        fa = ctx.fa(f)
        for p in fa.paths:
            for e in p.events:
                if e.kind != "call":
                    continue
                fn = e.d["fn"]
                n = None
                if fn.endswith("::with_capacity") and e.d["args"]:
                    n = e.d["args"][-1]
                elif fn == "alloc::vec::from_elem" and len(e.d["args"]) == 2:
                    n = e.d["args"][1]
                elif fn.endswith(("::reserve", "::reserve_exact", "::resize")) and len(e.d["args"]) >= 2:
                    n = e.d["args"][1]
                if n is None or not tn.tainted(fa, n):
                    continue
                nn = unmut(n)
                verdict, why = False, "allocation size %s is input-derived and unbounded" % tstr(nn)[:80]
                if is_call_to(nn, lambda s: s.endswith("::min")) and any(a[0] == "c" for a in nn[2]):
                    k = [a[1] for a in nn[2] if a[0] == "c"][0]
                    verdict, why = True, "clamped with min(_, %d)" % k
                else:
                    b = bits_of(fa, nn)
                    if b is not None and b <= 32:
                        verdict, why = True, "bounded by type: at most %d bits (the format's own entry limit)" % b
                key = (f["path"], e.node.get("id"))
                if key not in seen or (seen[key][0] and not verdict):
                    seen[key] = (verdict, why, e, f["path"], fn)
    for key, (v, why, e, fnp, fn) in seen.items():
        obs.append(Ob("R-TAINT-ALLOC", fnp, "%s(%s)" % (fn.rpartition("::")[2], _shape(e.d["args"][-1])), v, why, e.loc()))
    return obs


def r_taint_index(ctx, extra=None):
    obs = []
    _install_roles(ctx)
    tn = _taint(ctx, extra)
    seen = {}
    for f in ctx.user_fns():
        fa = ctx.fa(f)
        for p in fa.paths:
            for e in p.events:
                if e.kind == "call" and e.d["fn"].endswith(("::chunks", "::chunks_exact", "::rchunks", "::chunks_mut", "::chunks_exact_mut")) and len(e.d["args"]) == 2 and tn.tainted(fa, e.d["args"][1]):
                    key = (f["path"], e.node.get("id"))
                    seen[key] = (False, "chunk size is input-derived (chunks(0) panics)", e, f["path"], "chunks")
                if e.kind != "index":
                    continue
                idx = unmut(e.d["idx"])
                base = unmut(e.d["base"])
                if absint._is_full_range(idx) or (idx[0] == "struct" and idx[1].startswith("core::ops::range::RangeFull")):
                    continue
                bt = e.d.get("base_ty") or ""
                if "HashMap" in bt or "BTreeMap" in bt:
                    continue
                t_idx = tn.tainted(fa, idx) or tn.tainted(fa, e.d["idx"])          # (the raw terms keep the link from a buffer to the read that filled it)
                t_base = tn.tainted(fa, base) or tn.tainted(fa, e.d["base"])
                if not (t_idx or t_base):
                    continue
                verdict, why = False, "index %s into input-derived/sized container without a visible bound" % tstr(idx)[:60]
                if " as core::ops::index::Index" in f["path"] and idx[0] == "v" and str(idx[1]).startswith("param:"):
                    # the type's own `Index`/`IndexMut` impl forwarding the caller's index to the underlying sequence: out-of-range is the operator's
                    # documented contract (whether spelled `self.v[i]` or `self.v.index(i)`); callers inside the crate are checked at their own sites
                    verdict, why = True, "Index/IndexMut impl forwarding the caller's index (operator contract)"
                # v[0] after `!v.is_empty()` (or for a chunk of `chunks`, which is never empty)
                if idx == C(0):
                    if knows(p, ("empty", base, False), e.seq) is not None:
                        verdict, why = True, "guarded: is_empty() refuted on this path"
                    if base[0] == "elem" and is_call_to(base[1], lambda s: s.endswith("::chunks")):
                        verdict, why = True, "chunk of chunks(): never empty"
                for (fn, reason) in ALLOW_INDEX:
                    if _in_role(fn, f["path"]) and _is_counted_index(p, e, idx):
                        verdict, why = True, "allow-table: " + reason
                key = (f["path"], e.node.get("id"))
                if key not in seen or (seen[key][0] and not verdict):
                    seen[key] = (verdict, why, e, f["path"], "index")
    for key, (v, why, e, fnp, kind) in seen.items():
        what = _shape(e.d["idx"]) if kind == "index" else "chunks"
        obs.append(Ob("R-TAINT-INDEX", fnp, "[%s]" % what, v, why, e.loc()))
    return obs


def _is_counted_index(p, e, idx):
    """idx is the counter i (or i − 1 guarded by i > 0) of a `for i in 0..n` loop"""
    a = affine(idx)
    atoms = list(a[1].items())
    if len(atoms) != 1 or atoms[0][1] != 1:
        return False
    el = atoms[0][0]
    if el[0] != "elem":
        return False
    it = unmut(el[1])
    if not (it[0] == "struct" and it[1] == "core::ops::range::Range" and struct_field(it, "start") == C(0)):
        return False
    if a[0] == 0:
        return True
    if a[0] == -1:
        return guard_ge(p, e.seq, el, C(1))
    return False


def r_rec_bound(ctx):
    """R-REC-BOUND: every recursive local function threads a depth budget that is checked against a constant limit"""
    obs = []
    cg = ctx.callgraph()
    rec = [f for f in ctx.user_fns() if f["path"] in cg.get(f["path"], ())]
    # mutual recursion would show up as longer cycles
    for f in ctx.user_fns():
        for g in cg.get(f["path"], ()):
            if g != f["path"] and f["path"] in ctx.reachable([g]) and ctx.fn(g) is not None:
                if f not in rec:
                    rec.append(f)
    if not rec:
        return [Ob("R-REC-BOUND", "<crate>", "no recursion", True, "the local call graph has no cycle")]
    for f in rec:
        fa = ctx.fa(f)
        fn = f["path"]
        found = False
        for p in fa.paths:
            for e in p.events:
                if e.kind == "call" and e.d["fn"] == fn:
                    ok = False
                    why = "no parameter grows by a constant at the recursive call under a constant limit"
                    for i, a in enumerate(e.d["args"]):
                        if i >= len(fa.param_names):
                            continue
                        pa = V("param:" + fa.param_names[i])
                        d = aff_sub(affine(unmut(a)), (0, {pa: 1}))
                        if not d[1] and d[0] > 0:
                            K = guard_le_const(p, e.seq, pa)
                            if K is not None:
                                ok = True
                                why = "`%s` grows by %d per level and is ≤ %d here (larger values return early)" % (fa.param_names[i], d[0], K)
                                # the limit branch must be an error exit
                                lim_err = any(q.exit == "err" and any(_is_limit(dd, pa) for dd in q.decisions()) for q in fa.paths)
                                if not lim_err:
                                    ok = False
                                    why = "limit test found but its exceeding branch is not an error exit"
                    found = True
                    obs.append(Ob("R-REC-BOUND", fn, "recursive call threads a bounded depth", ok, why, e.loc()))
        if not found:
            obs.append(Ob("R-REC-BOUND", fn, "recursive call", False, "recursion through another function: no depth budget analysis available", rel(f["loc"])))
    return obs


MIN_DIRECTORY_LEVELS = 4   # root + three nested leaf levels: what the repaired tree admits (F7 chose the bound; the spec gives none)


def r_depth_admits(ctx):
    """R-WALK-DEPTH: the depth budget of the recursive directory walker admits at least MIN_DIRECTORY_LEVELS directory levels from every external entry
    (start value, step and limit are read off the code: levels = ⌊(limit − start)/step⌋ + 1)"""
    obs = []
    ws = ctx.walkers()
    if not ws:
        return no_anchor("R-WALK-DEPTH", "recursive directory walker")
    for f in ws:
        fa = ctx.fa(f)
        fn = f["path"]
        budget = None
        Ke = None
        for p in fa.paths:
            for e in p.events:
                if e.kind == "call" and e.d["fn"] == fn:
                    for i, a in enumerate(e.d["args"]):
                        if i >= len(fa.param_names):
                            continue
                        pa = V("param:" + fa.param_names[i])
                        d = aff_sub(affine(unmut(a)), (0, {pa: 1}))
                        if not d[1] and d[0] > 0:
                            K = guard_le_const(p, e.seq, pa)
                            if K is not None:
                                budget = (i, d[0], K)
                                dec = [x for x in p.events if x.kind == "call" and x.seq < e.seq and x.d["fn"].startswith("directory::Directory::from_") and "reader" in x.d["fn"]]
                                Ke = guard_le_const(p, dec[0].seq, pa) if dec else None
        if budget is None:
            obs.append(Ob("R-WALK-DEPTH", fn, "depth budget", False, "no constant-step, constant-limit depth parameter found", rel(f["loc"])))
            continue
        idx, step, K = budget
        callers = 0
        for g in ctx.user_fns():
            if g["path"] == fn:
                continue
            ga = None
            for c in calls(g["body"]):
                if c["fn"] == fn:
                    ga = ga or ctx.fa(g)
            if ga is None:
                continue
            for p in ga.paths:
                for e in p.events:
                    if e.kind == "call" and e.d["fn"] == fn and idx < len(e.d["args"]):
                        callers += 1
                        a0 = affine(unmut(e.d["args"][idx]))
                        if a0[1]:
                            obs.append(Ob("R-WALK-DEPTH", g["path"], "walk starts at a constant depth", False, "initial depth = %s" % aff_str(a0), e.loc()))
                            continue
                        # walk the chain: a level is decoded if the guard in front of the decode (if any) admits the depth; the next level is
                        # entered if the guard in front of the recursive call admits it
                        d_, levels = a0[0], 0
                        while levels < 64:
                            if Ke is not None and d_ > Ke:
                                break
                            levels += 1
                            if d_ > K:
                                break
                            d_ += step
                        obs.append(Ob("R-WALK-DEPTH", g["path"], "the depth budget admits ≥ %d directory levels" % MIN_DIRECTORY_LEVELS, levels >= MIN_DIRECTORY_LEVELS,
                                      "start %d, step %d, decode allowed while depth ≤ %s, recursion while depth ≤ %d ⇒ %d levels" % (a0[0], step, Ke if Ke is not None else "∞", K, levels), e.loc(), {"levels": levels}))
        if callers == 0:
            obs.append(Ob("R-WALK-DEPTH", fn, "external entry", False, "no non-recursive caller of the walker found", rel(f["loc"])))
    return obs


def r_depth_twins(ctx):
    """R-WALK-DEPTH (twins): every entry point of the directory walk (sync and async) admits the same number of directory levels"""
    obs = [o for o in r_depth_admits(ctx)]
    lv = {}
    for o in obs:
        if o.values and "levels" in o.values:
            lv[o.fn] = o.values["levels"]
    out = [o for o in obs if not o.ok and "admits" not in o.site]
    out.append(Ob("R-WALK-DEPTH", "<crate>", "all entry points of the directory walk admit the same depth", len(set(lv.values())) == 1,
                  "; ".join("%s: %d levels" % (k.rpartition("::")[2], v) for k, v in sorted(lv.items())) or "no entry point analysed"))
    return out


def _is_limit(d, pa):
    """the decision establishes `pa` > constant (in either operand order)"""
    pv = affine(pa)[1]
    for f in decision_facts(d):
        if f[0] == "rel":
            op, l, r = f[1], unmut(f[2]), unmut(f[3])
            if op in (">", ">=") and affine(l)[1] == pv and affine(r)[1] == {}:
                return True
            if op in ("<", "<=") and affine(r)[1] == pv and affine(l)[1] == {}:
                return True
    return False


# ------------------------------------------------------------------------------------------------
# C11

def walker_and_range_fns(ctx):
    ws = ctx.walkers()
    rfs = [f for f in ctx.user_fns() if any(c["fn"] == "core::ops::range::RangeBounds::end_bound" for c in calls(f["body"]))]
    return ws, rfs


def r_range_end(ctx):
    obs = []
    ws, rfs = walker_and_range_fns(ctx)
    if not rfs:
        return no_anchor("R-RANGE-END", "inclusive-end helper (function calling RangeBounds::end_bound)")
    for f in rfs:
        fa = ctx.fa(f)
        fn = f["path"]
        arms = {}
        for p in fa.paths:
            arm = None
            for d in p.decisions():
                if d.d["how"] == "match" and d.d.get("pat") is not None:
                    pat = d.d["pat"]
                    arm = (pat.get("ctor") or pat.get("def") or "").rpartition("::")[2]
            arms[arm] = p
            for e in p.events:
                if e.kind == "arith" and e.d["flavour"] == "plain" and e.d["op"] in ("-", "+"):
                    obs.append(Ob("R-RANGE-END", fn, "no unchecked arithmetic on a range bound (%s arm)" % arm, False,
                                  "`bound %s %s` underflows/overflows for a bound at the end of the id space (e.g. the range ..0)" % (e.d["op"], tstr(e.d["r"])), e.loc()))
        for arm, p in arms.items():
            v = unmut(p.value)
            if arm == "Included":
                ok = is_call_to(v, lambda s: s.endswith("Option::Some")) and v[2][0][0] == "proj"
                obs.append(Ob("R-RANGE-END", fn, "Included(v) ⇒ Some(v)", ok, "returns %s" % tstr(v)[:80], rel(f["loc"])))
            elif arm == "Excluded":
                ok = is_call_to(v, lambda s: s.endswith("Option::Some")) and aff_eq(affine(v[2][0]), (-1, {("proj", unmut(_scrut(p)), "Bound::Excluded.0"): 1}))
                sat = any(e.kind == "arith" and e.d["flavour"] in ("saturating", "checked") for e in p.events)
                obs.append(Ob("R-RANGE-END", fn, "Excluded(v) ⇒ Some(v − 1) without underflow", ok and sat, "returns %s" % tstr(v)[:80], rel(f["loc"])))
            elif arm == "Unbounded":
                ok = is_call_to(v, lambda s: s.endswith("Option::None"))
                obs.append(Ob("R-RANGE-END", fn, "Unbounded ⇒ None", ok, "returns %s" % tstr(v)[:80], rel(f["loc"])))
        obs.append(Ob("R-RANGE-END", fn, "all three bound kinds handled", set(arms) == {"Included", "Excluded", "Unbounded"}, "arms: %s" % sorted(str(a) for a in arms), rel(f["loc"])))
    return obs


def _scrut(p):
    for d in p.decisions():
        if d.d["how"] == "match":
            return d.d["cond"]
    return None


def r_leaf_skip_and_filter(ctx):
    obs = []
    ws, rfs = walker_and_range_fns(ctx)
    if not ws:
        return no_anchor("R-FILTER-GUARD", "directory walker")
    rfn = set(f["path"] for f in rfs)
    for f in ws:
        fa = ctx.fa(f)
        fn = f["path"]
        fr = role_param(fa, f, "range")
        n_ins = 0
        skip_seen = False
        for p in fa.paths:
            # R-FILTER-GUARD: every insert is preceded by filter_range.contains(&key) == true
            for e in p.events:
                if e.kind == "call" and e.d["fn"].endswith("HashMap::<K, V, S, A>::insert") and len(e.d["args"]) == 3:
                    n_ins += 1
                    key = unmut(e.d["args"][1])
                    ok = _filtered_by(key, fr)
                    for d in p.decisions(e.seq):
                        for c, pol in _atoms_with_polarity(unmut(d.d["cond"]), d.d["outcome"] is True):
                            if is_call_to(c, lambda s: s.endswith("RangeBounds::contains") or s.endswith("::contains")) and c[2][0] == fr and c[2][1] == key and pol:
                                ok = True
                    obs.append(Ob("R-FILTER-GUARD", fn, "insert only when filter_range.contains(&tile_id) for the inserted id", ok, "inserted key %s" % tstr(key)[:80], e.loc()))
                if e.kind == "call" and e.d["fn"] == fn:
                    ok = fr in [unmut(a) for a in e.d["args"]] or (fr[0] == "f" and fr[1] in [unmut(a) for a in e.d["args"]])      # (or the struct that carries it)
                    obs.append(Ob("R-FILTER-GUARD", fn, "recursive call forwards the same filter", ok, "args: %s" % ", ".join(tstr(unmut(a))[:30] for a in e.d["args"]), e.loc()))
            # R-LEAF-SKIP: an iteration that handles a leaf entry but ends without recursing has skipped that leaf; the only admissible reason is
            # `entry.tile_id > inclusive end` (strict; unbounded end ⇒ u64::MAX ⇒ never), in whatever form the test is written
            recs = [e for e in p.events if e.kind == "call" and e.d["fn"] == fn]
            leaf_facts = [(fct, d) for fct, d in path_facts(p) if d.loops]
            is_leaf_iter = any((fct[0] == "eq" and fct[2] == 0 and fct[1][0] == "f" and fct[1][2] == "run_length") or
                               (fct[0] == "bool" and is_call_to(fct[1], lambda s: s.endswith("::is_leaf_dir_entry")) and fct[2] is True) for fct, d in leaf_facts)
            # an iteration in which nothing refuted "this entry is a leaf pointer" may be handling one (a skip placed before the leaf/tile dispatch)
            not_leaf = any((fct[0] == "ne" and fct[2] == 0 and fct[1][0] == "f" and fct[1][2] == "run_length") or
                           (fct[0] == "bool" and is_call_to(fct[1], lambda s: s.endswith("::is_leaf_dir_entry")) and fct[2] is False) for fct, d in leaf_facts)
            in_iter = any(e.kind == "loop" and e.d["what"] == "enter" for e in p.events)
            ends_iter = any(e.kind == "loop" and e.d["what"] == "exit" for e in p.events)
            errs_out = p.exit == "err"
            if (is_leaf_iter or (in_iter and not not_leaf)) and not recs and ends_iter and not errs_out:
                skip_seen = True
                rels = []
                for fct, d in leaf_facts:
                    if fct[0] == "rel" and fct[1] in ("<", "<=", ">", ">="):
                        l, r = fct[2], fct[3]
                        if l[0] == "f" and l[2] == "tile_id" and l[1][0] == "elem":
                            rels.append((fct[1], l, r, d))
                        elif r[0] == "f" and r[2] == "tile_id" and r[1][0] == "elem":
                            rels.append(({"<": ">", "<=": ">=", ">": "<", ">=": "<="}[fct[1]], r, l, d))
                good = [x for x in rels if x[0] == ">" and _is_inclusive_end(x[2], rfn, fr)]
                where = (rels[0][3].loc() if rels else rel(f["loc"]))
                obs.append(Ob("R-LEAF-SKIP", fn, "leaf skipped only if its first id is strictly beyond the inclusive range end (unbounded ⇒ never)", bool(good),
                              "facts about the leaf's first id on the skipping path: %s" % (", ".join("tile_id %s %s" % (x[0], tstr(x[2])[:60]) for x in rels) or "none"), where))
                dep_start = any(is_call_to(t_, lambda s: s.endswith("::start_bound")) for x in rels for t_ in subterms(x[2]))
                obs.append(Ob("R-LEAF-SKIP", fn, "skip does not look at the range start", not dep_start, "condition mentions start_bound: %s" % dep_start, where))
        # exactness: an id of a run is passed over (iteration of the id loop without an insert) only because the filter rejects it
        for p in fa.paths:
            if p.exit == "err":
                continue
            for e in p.events:
                if not (e.kind == "loop" and e.d["what"] == "enter" and e.d.get("iter") is not None and is_call_to(iter_base(unmut(e.d["iter"])), lambda s: s.endswith("::tile_id_range"))):
                    continue
                lid = e.d["lid"]
                ex = [x for x in p.events if x.kind == "loop" and x.d["what"] == "exit" and x.d["lid"] == lid and x.seq > e.seq]
                if not ex:
                    continue
                ex = ex[0]
                if any(x.kind == "call" and x.d["fn"].endswith("HashMap::<K, V, S, A>::insert") and e.seq < x.seq < ex.seq for x in p.events):
                    continue
                d = rejects_because(p, ex.seq, lambda fct: fct[0] == "bool" and fct[2] is False and is_call_to(fct[1], lambda s: s.endswith("::contains")) and fct[1][2] and unmut(fct[1][2][0]) == fr, after=e.seq)
                d2 = rejects_because(p, ex.seq, lambda fct: fct[0] == "rel" and fct[1] in (">", "<") and (_is_inclusive_end(fct[3], rfn, fr) if fct[1] == ">" else _is_inclusive_end(fct[2], rfn, fr)), after=e.seq)
                obs.append(Ob("R-FILTER-GUARD", fn, "an id of a run is passed over only when the filter rejects it", d is not None or d2 is not None,
                              "skip justified by the range test" if (d or d2) else "an iteration of the id loop without insert that `!filter_range.contains(&id)` does not account for", ex.loc()))
        if n_ins == 0:
            obs.append(Ob("R-FILTER-GUARD", fn, "insert site", False, "walker never inserts", rel(f["loc"])))
        # a skip that exists nowhere is fine for correctness (just slower): no obligation
    return obs


def _early_exits(ctx, rule, filtered):
    """`break` exits of the walker's loops.  filtered=True: those taken only for ids the range filter rejected (matter for partial opens only);
    filtered=False: all others (matter for every open).  Admissible reason in both cases: an id strictly beyond the inclusive range end."""
    obs = []
    ws, rfs = walker_and_range_fns(ctx)
    if not ws:
        return no_anchor(rule, "directory walker")
    rfn = set(f["path"] for f in rfs)
    for f in ws:
        fa = ctx.fa(f)
        fn = f["path"]
        fr = role_param(fa, f, "range")
        n_break = 0
        for p in fa.paths:
            for e in p.events:
                if e.kind == "loop" and e.d["what"] == "exit" and e.d.get("how") == "break":
                    good = False
                    by_filter = False
                    for fct, d in path_facts(p, e.seq):
                        if not d.loops:
                            continue
                        if fct[0] == "bool" and fct[2] is False and is_call_to(fct[1], lambda s: s.endswith("::contains")) and fct[1][2] and unmut(fct[1][2][0]) == fr:
                            by_filter = True
                        if fct[0] == "rel" and fct[1] in ("<", "<=", ">", ">="):
                            op, l, r = fct[1], fct[2], fct[3]
                            if op in ("<", "<="):
                                op, l, r = {"<": ">", "<=": ">="}[op], r, l
                            if op == ">" and _is_inclusive_end(r, rfn, fr):
                                good = True
                    if by_filter != filtered:
                        continue
                    n_break += 1
                    obs.append(Ob(rule, fn, "a directory/run loop is left early only beyond the inclusive range end", good,
                                  "`break` out of loop %s without `id > inclusive end` on the path" % e.d.get("lid") if not good else "break justified by id > inclusive end", e.loc()))
        obs.append(Ob(rule, fn, "early loop exits%s" % (" (filtered ids)" if filtered else ""), True, "%d `break` exits examined" % n_break, rel(f["loc"])))
    return obs


def r_walk_complete(ctx):
    """R-WALK (completeness): the walk over a directory's entries and over a run's ids is never cut short (`break`), except once an id is strictly
    beyond the inclusive range end — ids ascend, so nothing later can be in range"""
    return _early_exits(ctx, "R-WALK", False)


def r_filter_complete(ctx):
    """R-FILTER-GUARD (completeness): an id the filter rejects is skipped (`continue`), it does not end the run/directory loop — unless it is beyond the
    inclusive end"""
    return _early_exits(ctx, "R-FILTER-GUARD", True)


def r_partial_same(ctx):
    """R-PARTIAL-SAME: full and partial opens are the same code with `..` as the range.  Roles come from the signatures: the range parameter is the one
    bounded by RangeBounds, the source is the other one; an entry point with a range parameter forwards it, one without passes `..`"""
    obs = []
    ops = set(f["path"] for f in ctx.openers())
    if not ops:
        return no_anchor("R-PARTIAL-SAME", "opener")

    def roles(f):
        rng = [i for i, p in enumerate(f["params"]) if "RangeBounds" in (p["ty"] or "")]
        src = [i for i, p in enumerate(f["params"]) if "RangeBounds" not in (p["ty"] or "")]
        return (rng[0] if len(rng) == 1 else None), (src[0] if len(src) == 1 else None)
    # the family of entry points: functions that hand their result straight from the opener, or from another member of the family
    family = set(ops)
    grew = True
    while grew:
        grew = False
        for f in ctx.user_fns():
            if f["path"] not in family and any(c["fn"] in family for c in calls(f["body"])) and roles(f)[1] is not None:
                family.add(f["path"])
                grew = True
    n_full = n_part = 0
    for f in ctx.user_fns():
        if f["path"] not in family or f["path"] in ops:
            continue
        fa = ctx.fa(f)
        my_rng, my_src = roles(f)
        for p in fa.paths:
            v = unmut(p.value)
            if not is_call_to(v, lambda s_: s_ in family):
                obs.append(Ob("R-PARTIAL-SAME", f["path"], "forwards to the shared opener", False, "returns %s" % tstr(v)[:80], rel(f["loc"])))
                continue
            h = ctx.fn(v[1])
            h_rng, h_src = roles(h)
            if h_src is None or h_src >= len(v[2]) or (h_rng is not None and h_rng >= len(v[2])):
                obs.append(Ob("R-PARTIAL-SAME", f["path"], "forwards to the shared opener", False, "callee %s has no (source[, range]) signature" % v[1], rel(f["loc"])))
                continue
            src = unmut(v[2][h_src])
            mine = V("param:" + fa.param_names[my_src])
            src_ok = src == mine or (is_call_to(src, lambda s_: s_.endswith("Cursor::<T>::new")) and src[2] and unmut(src[2][0]) == mine)
            if h_rng is None:
                # the callee is itself a full-range entry point (checked in its own right): only an entry point without a range may go through it
                n_full += 1
                obs.append(Ob("R-PARTIAL-SAME", f["path"], "full-range entry forwards to a full-range entry", my_rng is None and src_ok,
                              "forwards to %s with source %s%s" % (v[1].rpartition("::")[2], tstr(src)[:40], "" if my_rng is None else " — dropping its own range parameter"), rel(f["loc"])))
                continue
            rng = unmut(v[2][h_rng])
            if my_rng is not None:
                n_part += 1
                ok = rng == V("param:" + fa.param_names[my_rng])
            else:
                n_full += 1
                ok = is_call_to(rng, lambda s_: s_ == "core::ops::range::RangeFull") or (isinstance(rng, tuple) and rng[0] == "struct" and rng[1] == "core::ops::range::RangeFull")
            obs.append(Ob("R-PARTIAL-SAME", f["path"], "opener called with %s" % ("the caller's range" if my_rng is not None else "the full range `..`"), ok and src_ok,
                          "range argument = %s, source = %s" % (tstr(rng)[:60], tstr(src)[:40]), rel(f["loc"])))
    if not n_full or not n_part:
        obs.append(Ob("R-PARTIAL-SAME", "<anchor>", "full and partial entry points", False, "found %d full and %d partial entry paths" % (n_full, n_part)))
    return obs


# ------------------------------------------------------------------------------------------------
# C07

def r_zxy_guard(ctx):
    obs = []
    idf = [f for f in ctx.user_fns() if any(c["fn"].startswith("hilbert_2d::") and "xy2h" in c["fn"] for c in calls(f["body"]))]
    if not idf:
        return no_anchor("R-ZXY-GUARD", "coordinate→id conversion (function calling hilbert_2d::xy2h_discrete)")
    idfn = set(f["path"] for f in idf)
    lookups = [f for f in ctx.user_fns() if f["vis"] == "pub" and (ctx.calls_deep(f) & idfn) and "Option<alloc::vec::Vec<u8>>" in f["ret"]]
    if not lookups:
        return no_anchor("R-ZXY-GUARD", "lookup by coordinates (public function converting z/x/y to an id and returning tile bytes)")
    maxz = SPEC["max_zoom"]
    for f in lookups:
        fa = ctx.fa(f)
        fn = f["path"]
        n = 0
        for p in fa.paths:
            conv = [e for e in p.events if e.kind == "call" and e.d["fn"] in idfn]
            if not conv:
                # a path that does not convert must not look anything up: it answers "no tile"/error
                v = unmut(p.value)
                ok = (is_call_to(v, lambda s: s == "core::result::Result::Ok") and is_call_to(v[2][0], lambda s: s.endswith("Option::None"))) or p.exit == "err"
                obs.append(Ob("R-ZXY-GUARD", fn, "rejected coordinates answer `no tile` or an error", ok, "returns %s" % tstr(v)[:80], rel(f["loc"])))
                continue
            n += 1
            e = conv[0]
            z, x, y = [unmut(a) for a in e.d["args"][:3]]
            facts = _coordinate_facts(ctx, p, e.seq)
            zK = facts.get(("le", z))
            ok_z = zK is not None and zK <= maxz
            obs.append(Ob("R-ZXY-GUARD", fn, "conversion only for z ≤ 31", ok_z, "established bound on z before the conversion: %s (must be at most %d: a larger zoom overflows the 64-bit id space)" % (zK, maxz), e.loc()))
            obs.append(Ob("R-ZXY-GUARD", fn, "every zoom 0–31 is converted", zK is not None and zK >= maxz, "established bound on z before the conversion: %s (a bound below %d loses valid tiles)" % (zK, maxz), e.loc(), only=("C07",)))
            for nm, c in (("x", x), ("y", y)):
                ok = ("grid", c, z) in facts
                obs.append(Ob("R-ZXY-GUARD", fn, "conversion only for %s < 2^z" % nm, ok, "grid test on %s found: %s" % (nm, ok), e.loc()))
            ok_shift = facts.get("shift_guarded", True)
            obs.append(Ob("R-ZXY-GUARD", fn, "the grid bound 1 << z is only evaluated for z < 64", ok_shift, "shift evaluated under its own zoom guard: %s" % ok_shift, e.loc()))
            # argument selection: a parameter of the lookup that carries the name of one of the conversion's parameters is passed in that parameter's
            # position (get_tile(x, y, z) → tile_id(z, x, y)); decided only where both sides use the same name, silent otherwise
            callee = ctx.fn(e.d["fn"])
            cnames = list(ctx.fa(callee).param_names) if callee is not None else []
            for i, a in enumerate(e.d["args"][:len(cnames)]):
                a = _strip_cast(unmut(a))
                if a[0] == "v" and str(a[1]).startswith("param:"):
                    nm = a[1][len("param:"):]
                    if nm in cnames:
                        obs.append(Ob("R-ZXY-GUARD", fn, "the lookup's `%s` is converted as the conversion's `%s`" % (nm, nm), cnames[i] == nm,
                                      "parameter `%s` of the lookup is passed as `%s` of %s" % (nm, cnames[i], e.d["fn"].rpartition("::")[2]), e.loc(), only=("C07",)))
        # every shift by the zoom on the way (also inside helpers evaluated in place, also on the refusing paths) happens under z < 64
        shifts = {}
        for p in fa.paths:
            for e in p.events:
                if e.kind == "arith" and e.d.get("op") in ("<<",) and e.d.get("r") is not None and e.d["r"][0] != "c":
                    amt = _strip_cast(unmut(e.d["r"]))
                    K = guard_le_const(p, e.seq, amt, e)
                    okk = K is not None and K < 64
                    key = e.node.get("id")
                    if key not in shifts or (shifts[key][0] and not okk):
                        shifts[key] = (okk, K, e)
        for key, (okk, K, e) in shifts.items():
            obs.append(Ob("R-ZXY-GUARD", fn, "a shift by the zoom is evaluated only under z < 64", okk,
                          "shift amount %s bounded by %s at the point of evaluation" % (tstr(_strip_cast(unmut(e.d["r"])))[:30], K), e.loc()))
        if n == 0:
            obs.append(Ob("R-ZXY-GUARD", fn, "conversion path", False, "no path converts coordinates", rel(f["loc"])))
            continue
        # exactness: coordinates are refused only for one of the three reasons (zoom beyond 31, x or y outside the grid), whatever the form of the test
        coords = set()
        for p in fa.paths:
            for e in p.events:
                if e.kind == "call" and e.d["fn"] in idfn:
                    coords.add(tuple(_strip_cast(unmut(a)) for a in e.d["args"][:3]))
        for p in fa.paths:
            if any(e.kind == "call" and e.d["fn"] in idfn for e in p.events) or p.exit == "err" and isinstance(p.value, tuple) and p.value and p.value[0] == "errprop":
                continue
            why = None
            for d in p.decisions():
                if d.d["how"] != "if" or d.d.get("folded"):
                    continue
                alts = _expanded_alternatives(ctx, unmut(d.d["cond"]), d.d["outcome"] is True, {}, 0)
                if alts and all(any(_is_zxy_reason(a, pol, coords, maxz) for a, pol in alt) for alt in alts):
                    why = d
            ex = [e for e in p.events if e.kind == "exit"]
            obs.append(Ob("R-ZXY-GUARD", fn, "coordinates are refused only for z > 31 or x/y outside the grid", why is not None,
                          "refusal justified by the validity test" if why is not None else "a `no tile` exit that the validity of z/x/y does not account for", ex[-1].loc() if ex else rel(f["loc"]), only=("C07",)))
    return obs


def _expanded_alternatives(ctx, c, truth, subst, depth):
    """DNF of `c == truth` with calls to one-path local bool predicates replaced by their bodies; list of alternatives of (atom, polarity)"""
    c = _subst(unmut(c), subst)
    if c[0] == "un" and c[1] == "!":
        return _expanded_alternatives(ctx, c[2], not truth, {}, depth)
    if c[0] == "bin" and c[1] in ("&&", "||"):
        conj = (c[1] == "&&") == truth
        l = _expanded_alternatives(ctx, c[2], truth, {}, depth)
        r = _expanded_alternatives(ctx, c[3], truth, {}, depth)
        return ([a + b for a in l for b in r] if conj else l + r)[:64]
    if c[0] == "call" and c[1] in ctx.facts.fns and depth < 2:
        callee = ctx.fn(c[1])
        if callee is not None and callee["ret"] == "bool":
            cfa = ctx.fa(callee)
            if len(cfa.paths) == 1:
                sub = {V("param:" + n): a for n, a in zip(cfa.param_names, c[2])}
                return _expanded_alternatives(ctx, unmut(cfa.paths[0].value), truth, sub, depth + 1)
    return [[(c, truth)]]


def _is_zxy_reason(atom, pol, coords, maxz):
    if atom[0] != "bin" or atom[1] not in ("<", "<=", ">", ">="):
        return False
    op = atom[1]
    if not pol:
        op = {"<": ">=", "<=": ">", ">": "<=", ">=": "<"}[op]
    l, r = _strip_cast(atom[2]), _strip_cast(atom[3])
    if op in ("<", "<="):
        op, l, r = {"<": ">", "<=": ">="}[op], r, l
    # now  l > r  or  l >= r
    for (z, x, y) in coords:
        if l == z and r[0] == "c" and ((op == ">" and r[1] == maxz) or (op == ">=" and r[1] == maxz + 1)):
            return True
        if l in (x, y) and op == ">=":
            big = atom[3] if _strip_cast(atom[2]) == l else atom[2]
            big = unmut(big)
            if big[0] == "bin" and big[1] == "<<" and big[2] == C(1) and _strip_cast(big[3]) == z:
                return True
            if is_call_to(big, lambda s_: s_.endswith("::pow")) and big[2][0] == C(2) and _strip_cast(big[2][1]) == z:
                return True
    return False


def _coordinate_facts(ctx, p, upto, subst=None, depth=0):
    """facts established by decisions before `upto`: ('le', term) -> K ;  ('grid', coord, z) present when coord < (1 << z) holds.
    A decision on the boolean result of a local predicate is expanded through the predicate's return expression."""
    facts = {}
    for d in p.decisions(upto):
        if d.d["how"] != "if":
            continue
        _facts_from(ctx, unmut(d.d["cond"]), d.d["outcome"] is True, facts, {}, depth)
    return facts


def _facts_from(ctx, c, truth, facts, subst, depth):
    for atom, pol in _atoms_with_polarity(c, truth):
        atom = _subst(atom, subst)
        if atom[0] == "call" and atom[1] in ctx.facts.fns and depth < 2:
            callee = ctx.fn(atom[1])
            if callee is not None and callee["ret"] == "bool":
                cfa = ctx.fa(callee)
                if len(cfa.paths) == 1:
                    sub = {V("param:" + n): a for n, a in zip(cfa.param_names, atom[2])}
                    # short-circuit order inside the predicate: a shift on the right of `z < K &&` is guarded
                    body = unmut(cfa.paths[0].value)
                    _check_shift_order(body, facts)
                    _facts_from(ctx, body, pol, facts, sub, depth + 1)
            continue
        if atom[0] != "bin" or atom[1] not in ("<", "<=", ">", ">="):
            continue
        op = atom[1]
        if not pol:
            op = {"<": ">=", "<=": ">", ">": "<=", ">=": "<"}[op]
        l, r = atom[2], atom[3]
        la, ra = affine(l), affine(r)
        # term ≤ K
        if not ra[1] and op in ("<", "<="):
            K = ra[0] - (1 if op == "<" else 0)
            key = ("le", _strip_cast(l))
            facts[key] = min(facts.get(key, K), K)
        if not la[1] and op in (">", ">="):
            K = la[0] - (1 if op == ">" else 0)
            key = ("le", _strip_cast(r))
            facts[key] = min(facts.get(key, K), K)
        # coord < 1 << z
        for (small, big, strict) in ((l, r, op == "<"), (r, l, op == ">")):
            if strict and isinstance(big, tuple) and big[0] == "bin" and big[1] == "<<" and big[2] == C(1):
                facts[("grid", _strip_cast(small), _strip_cast(big[3]))] = True
            if strict and is_call_to(big, lambda s: s.endswith("::pow")) and big[2][0] == C(2):
                facts[("grid", _strip_cast(small), _strip_cast(big[2][1]))] = True


def _check_shift_order(body, facts):
    """in `A && B` a shift inside B is evaluated only when A held; a shift by z in the *first* conjunct is unguarded"""
    cj = _conjuncts(body)
    guarded = True
    seen_z_bound = False
    for c in cj:
        has_shift = any(t[0] == "bin" and t[1] == "<<" for t in subterms(c))
        if has_shift and not seen_z_bound:
            guarded = False
        if c[0] == "bin" and c[1] in ("<", "<=") and not affine(c[3])[1]:
            seen_z_bound = True
    facts["shift_guarded"] = facts.get("shift_guarded", True) and guarded


def _strip_cast(t):
    while isinstance(t, tuple) and t and t[0] == "cast":
        t = t[2]
    return t


def _subst(t, sub):
    if not sub or not isinstance(t, tuple) or not t:
        return t
    if t in sub:
        return sub[t]
    if t[0] == "bin":
        return ("bin", t[1], _subst(t[2], sub), _subst(t[3], sub))
    if t[0] == "un":
        return ("un", t[1], _subst(t[2], sub))
    if t[0] == "cast":
        return ("cast", t[1], _subst(t[2], sub)) + tuple(t[3:])
    if t[0] == "call":
        return ("call", t[1], tuple(_subst(a, sub) for a in t[2]), t[3])
    if t[0] == "f":
        return ("f", _subst(t[1], sub), t[2])
    return t


# ------------------------------------------------------------------------------------------------
# C07 (id → zoom side and the Hilbert calls): structural clauses only

def r_findz(ctx):
    """R-FINDZ: the zoom search answers Ok(z) only for a z that was assigned under the strict test `id < end of zoom z's block`,
    iterates zooms 1..=31, and has an error exit; R-HILBERT-CALL: both conversions call hilbert_2d with (x, y, z) / (h, z) in order,
    Variant::Hilbert, and add / subtract the same zoom base"""
    global _CTX
    _CTX = ctx
    obs = []
    fz = [f for f in ctx.user_fns() if "MaxZError" in f["ret"] and "Result<u8" in f["ret"]]
    if not fz:
        # the search may hand back the zoom together with that zoom's first id
        fp = [f for f in ctx.user_fns() if "MaxZError" in f["ret"] and re.search(r"Result<\(u8, ?u64\)", f["ret"]) and len(f["params"]) == 1]
        if not fp:
            return no_anchor("R-FINDZ", "zoom search (function returning Result<u8, MaxZError>)")
        for f in fp:
            fa = ctx.fa(f)
            fn = f["path"]
            tid = role_param(fa, f, "u64")
            oks = [p for p in fa.paths if p.exit == "ok"]
            errs = [p for p in fa.paths if p.exit == "err"]
            # the function relies on its callers for id ≠ 0 (zxy answers 0 first): every local caller must have refuted id == 0
            callers_ok = True
            for g in ctx.user_fns():
                if fn in set(c["fn"] for c in calls(g["body"])) and g["path"] != fn:
                    ga = ctx.fa(g)
                    for q in ga.paths:
                        for e in q.events:
                            if e.kind == "call" and e.d["fn"] == fn and knows(q, ("ne", unmut(e.d["args"][0]), 0), e.seq) is None:
                                callers_ok = False
            good = bool(oks)
            for p in oks:
                v = unmut(p.value)
                t = unmut(v[2][0]) if is_call_to(v, lambda s_: s_ == "core::result::Result::Ok") and v[2] else None
                ex = [e for e in p.events if e.kind == "exit"][-1]
                # (the standalone function has no `id == 0` decision of its own: the callers' refutation, checked above, stands in for it)
                good = good and t is not None and t[0] == "tup" and len(t[1]) == 2 and _running_base_in(fa, p, tid, t[1][0], t[1][1], ex.seq)
            obs.append(Ob("R-FINDZ", fn, "zoom is recorded only under `id < end of that zoom's block` (strict)", good and callers_ok,
                          "returns (zoom, first id of that zoom) of a validated running-base search: %s; callers refute id == 0: %s" % (good, callers_ok), rel(f["loc"])))
            obs.append(Ob("R-FINDZ", fn, "searches zooms 1..=31", good, "loop guard z < %d with z starting at 1" % (SPEC["max_zoom"] + 1), rel(f["loc"])))
            obs.append(Ob("R-FINDZ", fn, "ids beyond the last block are an error", bool(errs), "error exits: %d" % len(errs), rel(f["loc"])))
        return obs
    maxz = SPEC["max_zoom"]
    for f in fz:
        fa = ctx.fa(f)
        fn = f["path"]
        tid = role_param(fa, f, "u64")
        guarded_assign = {}
        unguarded = []
        ranges = set()
        for p in fa.paths:
            for e in p.events:
                if e.kind == "loop" and e.d["what"] == "enter" and e.d.get("iter") is not None:
                    ranges.add(unmut(e.d["iter"]))
                if e.kind == "assign" and e.d.get("name") and e.loops:
                    val = unmut(e.d["value"])
                    if val[0] == "elem" or (val[0] == "cast" and val[2][0] == "elem"):
                        if _strict_block_test(fa, p, e, tid):
                            guarded_assign[e.d["var"]] = True
                        else:
                            unguarded.append(e)
        # … or the zoom is returned directly from inside the loop: the same strict test must precede that exit
        direct_ok = direct_bad = 0
        for p in fa.paths:
            if p.exit != "ok":
                continue
            v = unmut(p.value)
            z = v[2][0] if is_call_to(v, lambda s: s == "core::result::Result::Ok") and v[2] else None
            zz = z
            while isinstance(zz, tuple) and zz and zz[0] == "cast":
                zz = zz[2]
            if isinstance(zz, tuple) and zz and zz[0] == "elem":
                ex = [e for e in p.events if e.kind == "exit"][-1]
                loops_of_exit = None
                for e in reversed(p.events):
                    if e.kind == "decide" and e.loops:
                        loops_of_exit = e.loops
                        break
                class _E:  # the exit happens inside the iteration whose decisions we look at
                    pass
                fake = _E()
                fake.d = {"value": z}
                fake.seq = ex.seq
                fake.loops = loops_of_exit or ()
                if not any(a.kind == "assign" and unmut(a.d["value"]) == z for a in p.events) :
                    if _strict_block_test(fa, p, fake, tid):
                        direct_ok += 1
                    else:
                        direct_bad += 1
        obs.append(Ob("R-FINDZ", fn, "zoom is recorded only under `id < end of that zoom's block` (strict)", (bool(guarded_assign) or direct_ok > 0) and not unguarded and direct_bad == 0,
                      "guarded zoom assignments: %d, unguarded: %d; guarded direct returns: %d, unguarded: %d" % (len(guarded_assign), len(unguarded), direct_ok, direct_bad),
                      unguarded[0].loc() if unguarded else rel(f["loc"])))
        ok_range = len(ranges) == 1 and list(ranges)[0][0] == "struct" and struct_field(list(ranges)[0], "start") == C(1) and struct_field(list(ranges)[0], "end") == C(maxz + 1)
        obs.append(Ob("R-FINDZ", fn, "searches zooms 1..=31", ok_range, "loop ranges: %s" % [tstr(r) for r in ranges], rel(f["loc"])))
        oks = [p for p in fa.paths if p.exit == "ok"]
        errs = [p for p in fa.paths if p.exit == "err"]
        bad_ok = []
        for p in oks:
            v = unmut(p.value)
            z = v[2][0] if is_call_to(v, lambda s: s == "core::result::Result::Ok") and v[2] else None
            if z is None:
                bad_ok.append("?")
            elif z[0] == "c":
                bad_ok.append("constant zoom %s" % z[1])
            elif z[0] == "v":
                # loop-carried: only the guarded assignment or the initial 0 can be its source, and 0 was excluded on this path
                srcs = set(unmut(s) for s in fa.havoc_src.get(z, ()))
                consts = [s for s in srcs if s[0] == "c"]
                nz = any(d.d["how"] == "if" and _is_ne0(unmut(d.d["cond"]), z, d.d["outcome"]) for d in p.decisions())
                if any(c != C(0) for c in consts) or (consts and not nz):
                    bad_ok.append("zoom may keep its initial value")
        obs.append(Ob("R-FINDZ", fn, "Ok only with an assigned zoom (the initial value leads to Err)", not bad_ok and bool(oks), "; ".join(bad_ok) or "ok paths: %d" % len(oks), rel(f["loc"])))
        obs.append(Ob("R-FINDZ", fn, "ids beyond the last block are an error", bool(errs), "error exits: %d" % len(errs), rel(f["loc"])))
    return obs


def _is_ne0(c, z, outcome):
    if c[0] == "bin" and c[1] in ("==", "!=") and {c[2], c[3]} == {z, C(0)}:
        return (c[1] == "==") != (outcome is True)
    return False


def _strict_block_test(fa, p, e, tid):
    i = unmut(e.d["value"])
    while i[0] == "cast":
        i = i[2]
    for d in p.decisions(e.seq):
        if d.d["how"] != "if" or d.loops != e.loops:
            continue
        for c, pol in _atoms_with_polarity(unmut(d.d["cond"]), d.d["outcome"] is True):
            if c[0] != "bin" or c[1] not in ("<", ">", "<=", ">="):
                continue
            op = c[1]
            if not pol:
                op = {"<": ">=", "<=": ">", ">": "<=", ">=": "<"}[op]
            if op == ">" and c[3] == tid:
                acc = c[2]
            elif op == "<" and c[2] == tid:
                acc = c[3]
            else:
                continue
            a = affine(acc)
            pw = [k for k in a[1] if is_call_to(k, lambda s: s.endswith("::pow")) and k[2][0] == C(4) and _strip_cast(k[2][1]) == i]
            carried = [k for k in a[1] if k[0] == "v" and k[1].startswith("loop")]
            if len(pw) == 1 and len(carried) == 1 and a[0] == 0 and len(a[1]) == 2 and a[1][pw[0]] == 1 and a[1][carried[0]] == 1:
                srcs = set(unmut(s) for s in fa.havoc_src.get(carried[0], ()))
                def _one(s_):
                    # the literal 1, or "the first id of zoom 1" spelled as Σ_{0≤i<1} 4^i
                    return s_ == C(1) or _is_pow4_sum(s_, C(1), 0)
                if any(_one(s) for s in srcs) and all(_one(s) or aff_eq(affine(s), a) for s in srcs):
                    return True
    return False


_CTX = None


def r_hilbert_call(ctx):
    global _CTX
    _CTX = ctx
    obs = []
    enc = [f for f in ctx.user_fns() if any("xy2h_discrete" in c["fn"] for c in calls(f["body"]))]
    dec = [f for f in ctx.user_fns() if any("h2xy_discrete" in c["fn"] for c in calls(f["body"]))]
    if not enc or not dec:
        return no_anchor("R-HILBERT-CALL", "coordinate/id conversions (callers of hilbert_2d::xy2h_discrete / h2xy_discrete)")
    global _FA
    for f in enc:
        fa = ctx.fa(f)
        _FA = fa
        # the conversion's parameters by role, not by name: the zoom is the one u8, x and y are the other two in signature order
        tys = [fa.var_types.get(fa.params.get(n)) for n in fa.param_names]
        zs = [n for n, t in zip(fa.param_names, tys) if t == "u8"]
        xy = [n for n, t in zip(fa.param_names, tys) if t != "u8"]
        if len(fa.param_names) == 3 and len(zs) == 1 and len(xy) == 2:
            P = {"z": V("param:" + zs[0]), "x": V("param:" + xy[0]), "y": V("param:" + xy[1])}
        else:
            P = {n: V("param:" + n) for n in fa.param_names}
        for p in fa.paths:
            hc = [e for e in p.events if e.kind == "call" and "xy2h_discrete" in e.d["fn"]]
            v = unmut(p.value)
            if not hc:
                ok = v == C(0) and knows(p, ("eq", P.get("z"), 0)) is not None
                obs.append(Ob("R-HILBERT-CALL", f["path"], "zoom 0 ⇒ id 0", ok, "returns %s" % tstr(v)[:60], rel(f["loc"])))
                continue
            a = [_strip_cast(unmut(x)) for x in hc[0].d["args"]]
            ok_args = a[:3] == [P.get("x"), P.get("y"), P.get("z")] and is_call_to(a[3], lambda s: s.endswith("Variant::Hilbert"))
            obs.append(Ob("R-HILBERT-CALL", f["path"], "position = xy2h_discrete(x, y, z, Hilbert)", ok_args, "arguments: %s" % ", ".join(tstr(x)[:30] for x in a), hc[0].loc()))
            av = affine(v)
            hterm = [k for k in av[1] if _strip_cast(k) == unmut(hc[0].d["ret"]) or k == unmut(hc[0].d["ret"])]
            base = [k for k in av[1] if k not in hterm]
            # 1 + Σ_{1≤i<z} 4^i  =  Σ_{0≤i<z} 4^i
            ok_base = len(hterm) == 1 and av[1][hterm[0]] == 1 and len(base) == 1 and av[1][base[0]] == 1 and \
                ((av[0] == 1 and _is_pow4_sum(base[0], P.get("z"))) or (av[0] == 0 and _is_pow4_sum(base[0], P.get("z"), 0)) or _zoom_base_fold(av[0], base[0], P.get("z")))
            if not ok_base and len(hterm) == 1 and av[1][hterm[0]] == 1:
                ok_base = _zoom_base_accum(av[0], {k: c for k, c in av[1].items() if k not in hterm}, P.get("z"), fa, +1)
            obs.append(Ob("R-HILBERT-CALL", f["path"], "id = 1 + Σ_{1≤i<z} 4^i + position", ok_base, "returns %s" % aff_str(av)[:160], rel(f["loc"])))
            nc = absint.narrowing_casts(v)
            obs.append(Ob("R-HILBERT-CALL", f["path"], "the id is not truncated on the way out", not nc, ("narrowing cast(s): %s" % ", ".join("%s as %s" % (c[3], c[1]) for c in nc)) if nc else "no narrowing cast in the returned id", hc[0].loc()))
        if not any(not [e for e in p.events if e.kind == "call" and "xy2h_discrete" in e.d["fn"]] for p in fa.paths):
            obs.append(Ob("R-HILBERT-CALL", f["path"], "zoom 0 is answered without the curve (id 0)", False, "no path returns before the Hilbert call: zoom 0 would get id 1 + position", rel(f["loc"])))
    for f in dec:
        fa = ctx.fa(f)
        _FA = fa
        tid = V("param:" + fa.param_names[0]) if len(fa.param_names) == 1 else V("param:tile_id")
        if not any(p.exit == "ok" and not [e for e in p.events if e.kind == "call" and "h2xy_discrete" in e.d["fn"]] for p in fa.paths):
            obs.append(Ob("R-HILBERT-CALL", f["path"], "id 0 is answered without the curve (0/0/0)", False, "no success path returns before the Hilbert call", rel(f["loc"])))
        for p in fa.paths:
            if p.exit != "ok":
                continue
            hc = [e for e in p.events if e.kind == "call" and "h2xy_discrete" in e.d["fn"]]
            v = unmut(p.value)
            tup = v[2][0] if is_call_to(v, lambda s: s == "core::result::Result::Ok") and v[2] else None
            if not hc:
                ok = tup == ("tup", (C(0), C(0), C(0))) and knows(p, ("eq", tid, 0)) is not None
                obs.append(Ob("R-HILBERT-CALL", f["path"], "id 0 ⇒ 0/0/0", ok, "returns %s" % tstr(v)[:60], rel(f["loc"])))
                continue
            a = [unmut(x) for x in hc[0].d["args"]]
            z = _strip_cast(a[1])
            ha = affine(_strip_cast(a[0]))
            base = [k for k in ha[1] if k != tid]
            ok_h = ha[1].get(tid) == 1 and len(base) == 1 and ha[1][base[0]] == -1 and is_call_to(a[2], lambda s: s.endswith("Variant::Hilbert")) and \
                ((ha[0] == -1 and _is_pow4_sum(base[0], z)) or (ha[0] == 0 and _is_pow4_sum(base[0], z, 0)) or _zoom_base_fold(-ha[0], base[0], z))
            if not ok_h and ha[1].get(tid) == 1 and is_call_to(a[2], lambda s: s.endswith("Variant::Hilbert")):
                ok_h = _zoom_base_accum(-ha[0], {k: -c for k, c in ha[1].items() if k != tid}, z, fa, +1)
            running = False
            if not ok_h and ha[0] == 0 and ha[1].get(tid) == 1 and len(base) == 1 and ha[1][base[0]] == -1 and is_call_to(a[2], lambda s: s.endswith("Variant::Hilbert")):
                ok_h = running = _running_base(fa, p, tid, z, base[0], hc[0].seq)
            obs.append(Ob("R-HILBERT-CALL", f["path"], "position = id − (1 + Σ_{1≤i<z} 4^i), decoded with h2xy_discrete(_, z, Hilbert)", ok_h, "first argument %s" % aff_str(ha)[:140], hc[0].loc()))
            r = unmut(hc[0].d["ret"])
            ok_t = tup is not None and tup[0] == "tup" and len(tup[1]) == 3 and tup[1][0] == z and _strip_cast(tup[1][1]) == ("proj", r, 0) and _strip_cast(tup[1][2]) == ("proj", r, 1) and (z[0] == "call" or running)
            obs.append(Ob("R-HILBERT-CALL", f["path"], "returns (z, x, y) in that order from the zoom search and the curve", ok_t, "returns %s" % tstr(tup)[:120], rel(f["loc"])))
            nc = absint.narrowing_casts(v) + absint.narrowing_casts(a[0])
            obs.append(Ob("R-HILBERT-CALL", f["path"], "neither the position nor the coordinates are truncated", not nc, ("narrowing cast(s): %s" % ", ".join("%s as %s" % (c[3], c[1]) for c in nc)) if nc else "no narrowing cast", hc[0].loc()))
    return obs


def _running_base(fa, p, tid, z, B, upto, need_nonzero=True):
    """the zoom search that carries the zoom's first id along:  z = 1, base = 1;  while z < 32 { if id < base + 4^z { found (z, base) };
    base += 4^z; z += 1 }.  Checked as a loop invariant, base = 1 + Σ_{1≤i<z} 4^i: it holds on entry (1, 1), every other value the two
    variables are given is (z + 1, base + 4^z) of the *same* iteration, and (z, base) is used only under `z < 32` and the strict test
    `id < base + 4^z` of this iteration.  (The lower bound id ≥ base follows: on entry from id ≠ 0, later from the refuted test of the
    iteration before.)"""
    z, B = unmut(z), unmut(B)
    if not (z[0] == "v" and B[0] == "v" and str(z[1]).startswith("loop") and str(B[1]).startswith("loop") and z[1].split(":")[0] == B[1].split(":")[0]):
        return False
    lid = z[1].split(":")[0][4:]
    if set(unmut(x) for x in fa.havoc_init.get(z, ())) != {C(1)} or set(unmut(x) for x in fa.havoc_init.get(B, ())) != {C(1)}:
        return False
    width = lambda t: is_call_to(unmut(t), lambda s: s.endswith("::pow")) and len(unmut(t)[2]) == 2 and unmut(t)[2][0] == C(4) and _strip_cast(unmut(unmut(t)[2][1])) == z
    def is_next_base(t):
        a = affine(unmut(t))
        return a[0] == 0 and len(a[1]) == 2 and a[1].get(B) == 1 and all(c == 1 for c in a[1].values()) and any(k != B and width(k) for k in a[1])
    zs = [unmut(x) for x in fa.havoc_src.get(z, ()) if unmut(x) != C(1)]
    bs = [unmut(x) for x in fa.havoc_src.get(B, ()) if unmut(x) != C(1)]
    if not zs or not bs or not all(aff_eq(affine(x), (1, {z: 1})) for x in zs) or not all(is_next_base(x) for x in bs):
        return False
    strict = bounded = False
    for d in p.decisions(upto):
        if d.d["how"] not in ("if", "while") or not d.loops or str(d.loops[-1]) != lid:
            continue
        for c, pol in _atoms_with_polarity(unmut(d.d["cond"]), d.d["outcome"] is True):
            if c[0] != "bin" or not pol:
                continue
            if c[1] == "<" and unmut(c[2]) == tid and is_next_base(c[3]):
                strict = True
            if c[1] == ">" and unmut(c[3]) == tid and is_next_base(c[2]):
                strict = True
            if c[1] == "<" and unmut(c[2]) == z and unmut(c[3]) == C(SPEC["max_zoom"] + 1):
                bounded = True
    return strict and bounded and (not need_nonzero or knows(p, ("ne", tid, 0), upto) is not None)


def _running_base_in(fa, p, tid, z, B, upto):
    return _running_base(fa, p, tid, z, B, upto, need_nonzero=False)


def _zoom_base_accum(const, atoms, z, fa, sign):
    """the zoom base written as an explicit accumulation loop:  acc = 0; for i in 1..z { acc += 4^i }; 1 + acc  (or seeded with 1 / started at 0).
    On the path that skips the loop the base is the bare constant; on the representative iteration it is const + acc + 4^i with acc a loop variable
    whose sources are the seed and acc + 4^i, i ranging over start..z.  const + seed must be 1 for start = 1 (0 for start = 0)."""
    if not atoms:
        return const == 1         # the range 1..z was empty (z ≤ 1): the base is 1; the loop itself is validated on the iterating path
    if len(atoms) != 2 or any(c != 1 for c in atoms.values()):
        return False
    acc = [k for k in atoms if isinstance(k, tuple) and k and k[0] == "v" and str(k[1]).startswith("loop")]
    pw = [k for k in atoms if k not in acc]
    if len(acc) != 1 or len(pw) != 1:
        return False
    acc, pw = acc[0], unmut(pw[0])
    if not (is_call_to(pw, lambda s: s.endswith("::pow")) and len(pw[2]) == 2 and pw[2][0] == C(4)):
        return False
    idx = _strip_cast(unmut(pw[2][1]))
    if not (isinstance(idx, tuple) and idx and idx[0] == "elem"):
        return False
    rng = unmut(idx[1])
    if not (rng[0] == "struct" and rng[1] == "core::ops::range::Range" and _strip_cast(unmut(struct_field(rng, "end"))) == z):
        return False
    start = struct_field(rng, "start")
    seeds = [unmut(x) for x in fa.havoc_src.get(acc, ()) if unmut(x)[0] == "c"]
    steps = [unmut(x) for x in fa.havoc_src.get(acc, ()) if unmut(x)[0] != "c"]
    ok_steps = bool(steps) and all(affine(st_)[0] == 0 and set(affine(st_)[1].values()) == {1} and acc in affine(st_)[1] and len(affine(st_)[1]) == 2 for st_ in steps)
    if len(seeds) != 1 or not ok_steps:
        return False
    total = const + seeds[0][1]
    return (start == C(1) and total == 1) or (start == C(0) and total == 0)


def _zoom_base_fold(const, t, z):
    """const + fold(..)  =  1 + Σ_{1≤i<z} 4^i   (the constant may sit outside the fold, in its seed, or be the i = 0 term)"""
    return (const == 0 and (_is_pow4_fold(t, z, 1, 1) or _is_pow4_fold(t, z, 0, 0))) or (const == 1 and _is_pow4_fold(t, z, 1, 0))


def _is_eq0(c, what, outcome):
    return c[0] == "bin" and c[1] == "==" and {c[2], c[3]} == {what, C(0)} and outcome is True


_FA = None


def _is_pow4_fold(t, z, start, init):
    """fold(start..z, init, |acc, i| acc + 4^i)  =  init + Σ_{start≤i<z} 4^i"""
    if not (is_call_to(t, lambda s: s.endswith("Iterator::fold")) and len(t[2]) == 3):
        return False
    rng, ini, clos = t[2]
    if not (rng[0] == "struct" and rng[1] == "core::ops::range::Range" and struct_field(rng, "start") == C(start) and _strip_cast(struct_field(rng, "end")) == z):
        return False
    if unmut(ini) != C(init) or clos[0] != "clos" or not clos[2] or _FA is None:
        return False
    node = getattr(_FA, "clos_nodes", {}).get(clos[1])
    if node is None or len(node["params"]) != 2 or any(p.get("k") != "Bind" for p in node["params"]):
        return False
    acc, i = (V("clos%s:%s" % (clos[1], p["name"])) for p in node["params"])
    body = unmut(clos[2][0])
    if not (body[0] == "bin" and body[1] == "+"):
        return False
    for a, b in ((body[2], body[3]), (body[3], body[2])):
        a, b = unmut(a), unmut(b)
        if a == acc and is_call_to(b, lambda s: s.endswith("::pow")) and len(b[2]) == 2 and b[2][0] == C(4) and _strip_cast(b[2][1]) == i:
            return True
    return False


def _is_pow4_sum(t, z, start=1):
    """sum(map(start..z, |i| 4^i))"""
    if not is_call_to(t, lambda s: s.endswith("::sum")):
        return False
    m = t[2][0]
    if not is_call_to(m, lambda s: s.endswith("::map")) or len(m[2]) != 2:
        return False
    rng, clos = m[2]
    if not (rng[0] == "struct" and rng[1] == "core::ops::range::Range" and struct_field(rng, "start") == C(start) and _strip_cast(struct_field(rng, "end")) == z):
        return False
    if clos[0] == "call" and clos[3] is None and not clos[2] and _CTX is not None and _CTX.fn(clos[1]) is not None:
        # a function item used as the mapper: it must itself be `|i| 4^i`
        g = _CTX.fn(clos[1])
        ga = _CTX.fa(g)
        if len(ga.paths) != 1 or len(ga.param_names) != 1:
            return False
        body = unmut(ga.paths[0].value)
        return is_call_to(body, lambda s: s.endswith("::pow")) and body[2][0] == C(4) and _strip_cast(body[2][1]) == V("param:" + ga.param_names[0])
    if clos[0] != "clos" or not clos[2]:
        return False
    body = clos[2][0]
    exp = _strip_cast(body[2][1]) if is_call_to(body, lambda s: s.endswith("::pow")) and len(body[2]) == 2 else None
    return exp is not None and body[2][0] == C(4) and exp[0] == "v" and exp[1].startswith("clos%s:" % clos[1])     # the exponent is the closure's own parameter


def _filtered_by(key, fr):
    """key is an element of `iter.filter(|id| filter_range.contains(id))`"""
    if not (isinstance(key, tuple) and key[0] == "elem"):
        return False
    it = key[1]
    while is_call_to(it, lambda s: s.endswith(("::filter", "::enumerate", "::rev", "::into_iter", "::iter"))):
        if it[1].endswith("::filter") and len(it[2]) == 2 and it[2][1][0] == "clos" and it[2][1][2]:
            body = it[2][1][2][0]
            for c in _conjuncts(body):
                if is_call_to(c, lambda s: s.endswith("::contains")) and c[2][0] == fr and c[2][1][0] == "v" and c[2][1][1].startswith("clos"):
                    return True
        it = it[2][0]
    return False


def _is_inclusive_end(end, rfn, fr):
    end = unmut(end)
    if is_call_to(end, lambda s: s in rfn) and end[2] and end[2][0] == fr:
        return True      # the payload of `range_end(filter)` matched as Some(end): an unbounded range never gets here
    return is_call_to(end, lambda s: s.endswith("::unwrap_or")) and is_call_to(end[2][0], lambda s: s in rfn) and end[2][0][2][0] == fr and end[2][1] == C((1 << 64) - 1)
