"""Fact production: run pmlint (the rustc_private front end) on a crate under one or more feature configs.

Every check run rebuilds the facts from the crate's *current* working tree.  cargo's freshness cache is defeated by
removing the member's fingerprints, and the run asserts that a fact file carrying this run's nonce was written —
a missing or stale fact file is an engine failure (exit 2), never a pass.
"""
import fcntl
import os
import shutil
import subprocess
import sys
import time
import uuid

from hir import Facts

VERIF = os.path.dirname(os.path.dirname(os.path.abspath(__file__)))
CACHE = os.environ.get("PMLINT_CACHE", os.path.join(VERIF, ".cache"))
DRIVER = os.path.join(VERIF, "pmlint", "target", "release", "pmlint")

CONFIGS = {
    "all": ["--all-features"],
    "default": [],
    "serde": ["--no-default-features", "--features", "serde"],
    "async": ["--features", "async"],
}


class EngineError(Exception):
    pass


def sysroot():
    return subprocess.check_output(["rustc", "+nightly", "--print", "sysroot"], text=True).strip()


_SYSROOT = None


def ensure_driver():
    if not os.path.exists(DRIVER):
        r = subprocess.run(["cargo", "build", "--release", "--offline"], cwd=os.path.join(VERIF, "pmlint"),
                           stdout=subprocess.PIPE, stderr=subprocess.STDOUT, text=True)
        if r.returncode != 0 or not os.path.exists(DRIVER):
            raise EngineError("cannot build pmlint driver:\n" + r.stdout[-4000:])


def build_facts(crate_dir, configs, target_tag="repo", crate_name="pmtiles2"):
    """returns {config: Facts}; raises EngineError when the crate does not compile or no fresh fact file appeared"""
    global _SYSROOT
    ensure_driver()
    if _SYSROOT is None:
        _SYSROOT = sysroot()
    os.makedirs(CACHE, exist_ok=True)
    out = {}
    for cfg in configs:
        tgt = os.path.join(CACHE, "target-%s-%s" % (target_tag, cfg))
        os.makedirs(tgt, exist_ok=True)
        lock_path = os.path.join(CACHE, "lock-%s-%s" % (target_tag, cfg))
        with open(lock_path, "w") as lk:
            fcntl.flock(lk, fcntl.LOCK_EX)
            nonce = uuid.uuid4().hex
            outdir = os.path.join(CACHE, "facts-%s" % nonce)
            os.makedirs(outdir, exist_ok=True)
            fpdir = os.path.join(tgt, "debug", ".fingerprint")
            if os.path.isdir(fpdir):
                for d in os.listdir(fpdir):
                    if d.startswith(crate_name + "-"):
                        shutil.rmtree(os.path.join(fpdir, d), ignore_errors=True)
            env = dict(os.environ)
            env.update({
                "LD_LIBRARY_PATH": _SYSROOT + "/lib" + (":" + env["LD_LIBRARY_PATH"] if env.get("LD_LIBRARY_PATH") else ""),
                "PMLINT_OUT": outdir,
                "PMLINT_NONCE": nonce,
                "RUSTFLAGS": "-Awarnings",
                "CARGO_NET_OFFLINE": "true",
                "RUSTC_WORKSPACE_WRAPPER": DRIVER,
                "CARGO_TARGET_DIR": tgt,
            })
            env.pop("RUSTC_WRAPPER", None)
            t0 = time.time()
            r = subprocess.run(["cargo", "+nightly", "check", "--offline", "--lib", "-q"] + CONFIGS[cfg], cwd=crate_dir,
                               env=env, stdout=subprocess.PIPE, stderr=subprocess.STDOUT, text=True)
            try:
                if r.returncode != 0:
                    raise EngineError("cargo check failed for config %s in %s:\n%s" % (cfg, crate_dir, r.stdout[-6000:]))
                files = [f for f in os.listdir(outdir) if f.startswith(crate_name + "--") and f.endswith(".json")]
                if len(files) != 1:
                    raise EngineError("expected exactly one fresh fact file for %s/%s, found %r\n%s" % (crate_name, cfg, files, r.stdout[-2000:]))
                facts = Facts(os.path.join(outdir, files[0]))
                if facts.nonce != nonce:
                    raise EngineError("stale fact file (nonce mismatch) for config %s" % cfg)
                facts.cfg = cfg
                facts.wall = time.time() - t0
                out[cfg] = facts
            finally:
                shutil.rmtree(outdir, ignore_errors=True)
    return out


def cargo_metadata(crate_dir, feature_args):
    import json
    env = dict(os.environ)
    env["CARGO_NET_OFFLINE"] = "true"
    r = subprocess.run(["cargo", "metadata", "--offline", "--format-version", "1"] + feature_args, cwd=crate_dir,
                       env=env, stdout=subprocess.PIPE, stderr=subprocess.PIPE, text=True)
    if r.returncode != 0:
        raise EngineError("cargo metadata failed: " + r.stderr[-2000:])
    return json.loads(r.stdout)


if __name__ == "__main__":
    crate = sys.argv[1] if len(sys.argv) > 1 else "/repo"
    fs = build_facts(crate, ["all", "default"])
    for k, f in fs.items():
        print(k, f.features, len(f.fns), "fns", "%.2fs" % f.wall)
