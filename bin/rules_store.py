"""Tile store rules (C04, C10, C16, C19, C02): R-REJ-EMPTY, R-ADD-PAIR, R-REMOVE-GUARD, R-LOOKUP, R-HASHID,
R-FINISH-PAIR / R-COUNTERS, R-RLE-DEP, R-ORDER / R-CLUSTERED, R-HASH-NOLEAK."""
from rulebase import *
from rules_writer import no_anchor, struct_field
from rules_reader import unmut, is_call_to, _conjuncts, _pat_has_ctor, lazy_fetchers

HM = "std::collections::hash::map::HashMap::<K, V, S, A>::"
HS = "std::collections::hash::set::HashSet::<T, S, A>::"
HASH_CTOR = "tile_manager::TileManagerTile::Hash"
ENTRY = "directory::Entry"


def store_adt(ctx):
    """the ADT that owns the id→tile, hash→bytes and hash→ids maps"""
    for a in ctx.facts.adts.values():
        if a["kind"] != "struct":
            continue
        fields = a["variants"][0]["fields"]
        maps = [f for f in fields if "HashMap<" in f["ty"]]
        if len(maps) >= 3:
            roles = {}
            for f in maps:
                t = f["ty"]
                if "HashSet<" in t:
                    roles["ids"] = f["name"]
                elif "Vec<u8>" in t:
                    roles["data"] = f["name"]
                elif "TileManagerTile" in t:
                    roles["tiles"] = f["name"]
            if len(roles) == 3:
                return a, roles
    return None, None


def self_field(name):
    return ("f", V("param:self"), name)


def mutations(p, roles):
    """events that change one of the three maps (directly or through a local mutator of the same store)"""
    out = []
    for e in p.events:
        if e.kind != "call":
            continue
        fn = e.d["fn"]
        a0 = unmut(e.d["args"][0]) if e.d["args"] else None
        if fn.startswith(HM) and fn.rsplit("::", 1)[-1] in ("insert", "remove", "entry", "clear", "retain", "drain", "get_mut") and a0 in [self_field(n) for n in roles.values()]:
            out.append(e)
        elif fn.startswith(HS) and fn.rsplit("::", 1)[-1] in ("insert", "remove", "clear"):
            out.append(e)
        elif a0 == V("param:self") and e.d["tys"] and e.d["tys"][0].startswith("&mut") and fn.startswith("tile_manager::"):
            out.append(e)
    return out


def adders(ctx, roles):
    return [f for f in ctx.user_fns() if "TileManager" in (f.get("self_ty") or "") and
            any(c["fn"] == HM + "insert" and c["k"] == "MCall" and c["recv"]["k"] == "Field" and c["recv"]["name"] == roles["data"] for c in calls(f["body"]))]


def removers(ctx, roles):
    """functions of the store that take an id out of the id map: `tiles.remove(..)`, or `tiles.entry(..)` followed by `occupied.remove()`"""
    out = []
    for f in ctx.user_fns():
        if "TileManager" not in (f.get("self_ty") or ""):
            continue
        cs = list(calls(f["body"]))
        direct = any(c["fn"] == HM + "remove" and c["k"] == "MCall" and c["recv"]["k"] == "Field" and c["recv"]["name"] == roles["tiles"] for c in cs)
        via_entry = any(c["fn"] == HM + "entry" and c["k"] == "MCall" and c["recv"]["k"] == "Field" and c["recv"]["name"] == roles["tiles"] for c in cs) and \
            any(c["fn"].startswith("std::collections::hash::map::OccupiedEntry::") and c["fn"].endswith(("::remove", "::remove_entry")) for c in cs)
        if direct or via_entry:
            out.append(f)
    return out


def hash_fns(ctx):
    return [f for f in ctx.user_fns() if any(c["fn"] == "core::hash::Hasher::finish" for c in calls(f["body"]))]


def is_empty_test(c, what):
    c = unmut(c)
    if is_call_to(c, lambda s: s.endswith("::is_empty")) and c[2] and c[2][0] == what:
        return 1
    if isinstance(c, tuple) and c[0] == "bin" and c[1] in ("==", "!=") and {c[2], c[3]} == {("call", "len", (what,), None), C(0)}:
        return 1 if c[1] == "==" else -1
    if isinstance(c, tuple) and c[0] == "un" and c[1] == "!":
        return -is_empty_test(c[2], what)
    return 0


def r_rej_empty(ctx):
    obs = []
    adt, roles = store_adt(ctx)
    if adt is None:
        return no_anchor("R-REJ-EMPTY", "tile store (struct with the three hash maps)")
    ads = adders(ctx, roles)
    if not ads:
        return no_anchor("R-REJ-EMPTY", "add function (inserts into the hash→bytes map)")
    for f in ads:
        fn = f["path"]
        fa = ctx.fa(f)
        saw_err = False
        for p in fa.paths:
            muts = mutations(p, roles)
            content = None
            for e in p.events:
                if e.kind == "call" and e.d["fn"] == HM + "insert" and unmut(e.d["args"][0]) == self_field(roles["data"]):
                    content = unmut(e.d["args"][2])
            if muts:
                first = muts[0]
                # the tested value is the content that is stored later on this path
                guarded = content is not None and knows(p, ("empty", content, False), first.seq) is not None
                obs.append(Ob("R-REJ-EMPTY", fn, "every mutation is preceded by a refuted emptiness test of the content", guarded,
                              "first mutation: %s" % first.d["fn"].split("::")[-1], first.loc()))
            if p.exit == "err":
                saw_err = True
                obs.append(Ob("R-REJ-EMPTY", fn, "error exit leaves the store untouched", not muts, "mutations on an error path: %d" % len(muts), rel(f["loc"])))
                if not (isinstance(p.value, tuple) and p.value and p.value[0] == "errprop"):
                    # the function's own refusal: taken only for empty content, in whatever form the test is written
                    data_params = [V("param:" + n) for n in fa.param_names if n != "self" and V("param:" + n) != role_param(fa, f, "u64")]
                    d = rejects_because(p, None, lambda fct: fct[0] == "empty" and fct[2] is True and any(x in leaves(fct[1]) or unmut(fct[1]) == x for x in data_params))
                    ex = [e for e in p.events if e.kind == "exit"]
                    obs.append(Ob("R-REJ-EMPTY", fn, "content is refused only when it is empty", d is not None,
                                  "refusal justified by an emptiness test of the content" if d is not None else "an error exit that no emptiness test of the content accounts for", ex[-1].loc() if ex else rel(f["loc"]), only=("C01", "C04")))
        obs.append(Ob("R-REJ-EMPTY", fn, "empty content ⇒ Err", saw_err, "error exits: %s" % saw_err, rel(f["loc"])))
        # forwarding wrappers do not catch the error
        for g in ctx.user_fns():
            for c in calls(g["body"]):
                if c["fn"] == fn and g["path"] != fn:
                    ga = ctx.fa(g)
                    ok = all(p.exit == "tail" and is_call_to(unmut(p.value), lambda s: s == fn) and role_param(ga, g, "bytes") in unmut(p.value)[2] for p in ga.paths)
                    obs.append(Ob("R-REJ-EMPTY", g["path"], "wrapper forwards content and result unchanged", ok, "paths: %s" % [p.exit for p in ga.paths], rel(g["loc"])))
    return obs


def r_add_pair(ctx):
    obs = []
    adt, roles = store_adt(ctx)
    if adt is None:
        return no_anchor("R-ADD-PAIR", "tile store")
    hf = set(f["path"] for f in hash_fns(ctx))
    rem = set(f["path"] for f in removers(ctx, roles))
    for f in adders(ctx, roles):
        fn = f["path"]
        fa = ctx.fa(f)
        for p in fa.paths:
            if p.exit not in ("ok", "tail"):
                continue
            tid = role_param(fa, f, "u64")
            ins_t = [e for e in p.events if e.kind == "call" and e.d["fn"] == HM + "insert" and unmut(e.d["args"][0]) == self_field(roles["tiles"])]
            ins_d = [e for e in p.events if e.kind == "call" and e.d["fn"] == HM + "insert" and unmut(e.d["args"][0]) == self_field(roles["data"])]
            ins_s = [e for e in p.events if e.kind == "call" and e.d["fn"] == HS + "insert"]
            rm = [e for e in p.events if e.kind == "call" and e.d["fn"] in rem]
            # the id set's registration without the entry API: `get_mut(h)` is Some ⇒ insert into that set; None ⇒ a new set holding exactly this id
            new_set = [e for e in p.events if e.kind == "call" and e.d["fn"] == HM + "insert" and unmut(e.d["args"][0]) == self_field(roles["ids"])]
            one = len(ins_t) == 1 and len(ins_d) == 1 and len(ins_s) + len(new_set) == 1
            obs.append(Ob("R-ADD-PAIR", fn, "exactly one insert into each of the three maps", one, "id map: %d, bytes map: %d, id sets: %d" % (len(ins_t), len(ins_d), len(ins_s) + len(new_set)), rel(f["loc"])))
            if not one:
                continue
            if new_set:
                h_ = unmut(ins_d[0].d["args"][1])
                ns = new_set[0]
                val = unmut(ns.d["args"][2])
                probe = ("call", HM + "get_mut", (self_field(roles["ids"]), h_), None)
                absent = any(fct[0] == "variant" and fct[2] == "core::option::Option::None" and fct[3] is True and is_call_to(unmut(fct[1]), lambda s_: s_ in (HM + "get_mut", HM + "get", HM + "contains_key")) and
                             tuple(unmut(x_) for x_ in unmut(fct[1])[2]) == probe[2] for fct, _d in path_facts(p, ns.seq)) or \
                    any(fct[0] == "bool" and fct[2] is False and is_call_to(unmut(fct[1]), lambda s_: s_ == HM + "contains_key") and tuple(unmut(x_) for x_ in unmut(fct[1])[2]) == probe[2]
                        for fct, _d in path_facts(p, ns.seq))
                single = is_call_to(val, lambda s_: s_.endswith("From::from")) and val[2] and unmut(val[2][0]) == ("arr", (tid,))
                ok_ns = unmut(ns.d["args"][1]) == h_ and absent and single
                obs.append(Ob("R-ADD-PAIR", fn, "id set of that hash gains tile_id", ok_ns, "no set under this hash on this path: %s; new set = %s" % (absent, tstr(val)[:80]), ns.loc()))
                ins_s = [ns]
            h = unmut(ins_d[0].d["args"][1])
            content = unmut(ins_d[0].d["args"][2])
            ok_h = is_call_to(h, lambda s: s in hf) and h[2] and h[2][0] == content
            obs.append(Ob("R-ADD-PAIR", fn, "key = content hash of the stored bytes", ok_h, "bytes map key = %s" % tstr(h)[:100], ins_d[0].loc()))
            tv = unmut(ins_t[0].d["args"][2])
            ok_t = unmut(ins_t[0].d["args"][1]) == tid and is_call_to(tv, lambda s: s == HASH_CTOR) and tv[2][0] == h
            obs.append(Ob("R-ADD-PAIR", fn, "id map: tile_id ↦ Hash(that hash)", ok_t, "id map insert(%s, %s)" % (tstr(unmut(ins_t[0].d["args"][1]))[:40], tstr(tv)[:80]), ins_t[0].loc()))
            if not new_set:
                sset = unmut(ins_s[0].d["args"][0])
                ok_s = unmut(ins_s[0].d["args"][1]) == tid and any(is_call_to(t, lambda s: s in (HM + "entry", HM + "get_mut")) and unmut(t[2][0]) == self_field(roles["ids"]) and unmut(t[2][1]) == h for t in subterms(sset))
                obs.append(Ob("R-ADD-PAIR", fn, "id set of that hash gains tile_id", ok_s, "set = %s" % tstr(sset)[:120], ins_s[0].loc()))
            first_ins = min(ins_t[0].seq, ins_d[0].seq, ins_s[0].seq)
            entry_calls = [e for e in p.events if e.kind == "call" and e.d["fn"] in (HM + "entry", HM + "get_mut") and unmut(e.d["args"][0]) == self_field(roles["ids"])]
            if entry_calls:
                first_ins = min(first_ins, entry_calls[0].seq)
            ok_rm = len(rm) == 1 and rm[0].seq < first_ins and unmut(rm[0].d["args"][1]) == tid
            obs.append(Ob("R-ADD-PAIR", fn, "previous binding of tile_id removed first", ok_rm,
                          "remove calls: %d; the removal must precede all three registrations (a later removal strips the id that was just registered when the content is unchanged)" % len(rm), rel(f["loc"])))
            content_ok = is_call_to(content, lambda s: s.endswith("::into")) and content[2][0] == role_param(fa, f, "bytes") or content == role_param(fa, f, "bytes")
            obs.append(Ob("R-ADD-PAIR", fn, "stored bytes = the content passed in", bool(content_ok), "stored %s" % tstr(content)[:80], ins_d[0].loc()))
    return obs


def r_remove_guard(ctx):
    obs = []
    adt, roles = store_adt(ctx)
    if adt is None:
        return no_anchor("R-REMOVE-GUARD", "tile store")
    rs = removers(ctx, roles)
    if not rs:
        return no_anchor("R-REMOVE-GUARD", "remove function")
    for f in rs:
        fn = f["path"]
        fa = ctx.fa(f)
        n_drop = 0
        for p in fa.paths:
            first = [e for e in p.events if e.kind == "call" and any(e.d["fn"].startswith(x) for x in (HM, HS)) and e.d["fn"] != HM + "entry"]
            ok_first = bool(first) and first[0].d["fn"] == HM + "remove" and unmut(first[0].d["args"][0]) == self_field(roles["tiles"]) and unmut(first[0].d["args"][1]) == role_param(fa, f, "u64")
            if not first and any(fct[0] == "variant" and fct[2].endswith("Entry::Occupied") and fct[3] is False and is_call_to(unmut(fct[1]), lambda s: s == HM + "entry")
                                 and unmut(fct[1])[2][0] == self_field(roles["tiles"]) for fct, _d in path_facts(p)):
                continue      # the id is not in the id map (vacant entry): nothing to remove on this path
            obs.append(Ob("R-REMOVE-GUARD", fn, "id map entry removed on every path", ok_first, "first map operation: %s" % (first[0].d["fn"].split("::")[-1] if first else "none"), rel(f["loc"])))
            if not ok_first:
                continue
            removed = unmut(first[0].d["ret"])
            hpay = ("proj", removed, "TileManagerTile::Hash.0")
            drops_d = [e for e in p.events if e.kind == "call" and e.d["fn"] == HM + "remove" and unmut(e.d["args"][0]) == self_field(roles["data"])]
            drops_s = [e for e in p.events if e.kind == "call" and e.d["fn"] == HM + "remove" and unmut(e.d["args"][0]) == self_field(roles["ids"])]
            # the entry API drops the set through the occupied entry it looked up
            drops_s += [e for e in p.events if e.kind == "call" and e.d["fn"].endswith("OccupiedEntry::<'a, K, V>::remove") or (e.kind == "call" and e.d["fn"].endswith("OccupiedEntry::<'a, K, V, A>::remove"))
                        if any(is_call_to(t_, lambda s: s == HM + "entry") and t_[2][0] == self_field(roles["ids"]) for t_ in subterms(unmut(e.d["args"][0])))]
            setrm = [e for e in p.events if e.kind == "call" and e.d["fn"] == HS + "remove"]
            vacant = any((fct[0] == "variant" and fct[2].endswith("Entry::Occupied") and fct[3] is False) or
                         (fct[0] == "variant" and fct[2] == "core::option::Option::Some" and fct[3] is False and
                          is_call_to(unmut(fct[1]), lambda s: s in (HM + "get_mut", HM + "get")) and unmut(fct[1])[2][0] == self_field(roles["ids"]))
                         for fct, _d in path_facts(p))
            hashed = knows(p, ("variant", removed, HASH_CTOR, True)) is not None
            if hashed and vacant:
                # no id set exists for this hash: nothing to remove from
                obs.append(Ob("R-REMOVE-GUARD", fn, "hash-backed tile: id leaves the id set of its hash", not setrm, "no id set for this hash on this path", rel(f["loc"])))
            elif hashed:
                ok_set = len(setrm) == 1 and unmut(setrm[0].d["args"][1]) == role_param(fa, f, "u64") and any(
                    is_call_to(t, lambda s: s in (HM + "entry", HM + "get_mut")) and t[2][0] == self_field(roles["ids"]) and t[2][1] == hpay for t in subterms(unmut(setrm[0].d["args"][0])))
                obs.append(Ob("R-REMOVE-GUARD", fn, "hash-backed tile: id leaves the id set of its hash", ok_set, "id-set removals: %d" % len(setrm), rel(f["loc"])))
            for dr in drops_d + drops_s:
                n_drop += 1
                which = "bytes" if dr in drops_d else "id set"
                key_ok = (len(dr.d["args"]) > 1 and unmut(dr.d["args"][1]) == hpay) or (len(dr.d["args"]) == 1 and any(
                    is_call_to(t_, lambda s: s == HM + "entry") and t_[2][1] == hpay for t_ in subterms(unmut(dr.d["args"][0]))))
                guard = bool(setrm) and _emptiness_known(p, setrm[0], dr)
                if vacant and not setrm:
                    guard = True      # there is no id set for this hash: no other id can refer to the bytes
                obs.append(Ob("R-REMOVE-GUARD", fn, "%s dropped only when the id set became empty (tested after removing this id)" % which, guard and key_ok,
                              "key = %s; emptiness guard after the id-set removal: %s" % (tstr(unmut(dr.d["args"][-1]))[:80], guard), dr.loc()))
            if hashed and setrm and not drops_d:
                # converse (the store retains no content that no tile refers to): bytes are kept only because the id set is known to be non-empty
                target = _set_of(setrm[0].d["args"][0])
                d = rejects_because(p, None, lambda fct: fct[0] == "empty" and fct[2] is False and _set_of(fct[1]) == target, after=setrm[0].seq)
                obs.append(Ob("R-REMOVE-GUARD", fn, "bytes are kept only while another id still refers to them", d is not None,
                              "kept because the id set is non-empty" if d is not None else "a path removes the id from its set and keeps the bytes without knowing that the set is non-empty", setrm[0].loc(), only=("C10",)))
            if drops_d or drops_s:
                obs.append(Ob("R-REMOVE-GUARD", fn, "bytes and id set are dropped together", len(drops_d) == 1 and (len(drops_s) == 1 or (vacant and not drops_s)), "bytes drops: %d, id-set drops: %d" % (len(drops_d), len(drops_s)), rel(f["loc"])))
        obs.append(Ob("R-REMOVE-GUARD", fn, "a path that drops unreferenced bytes exists", n_drop > 0, "drop sites on paths: %d" % n_drop, rel(f["loc"])))
    return obs


def r_lookup(ctx):
    obs = []
    adt, roles = store_adt(ctx)
    if adt is None:
        return no_anchor("R-LOOKUP", "tile store")
    lf = lazy_fetchers(ctx)
    lfn = set(f["path"] for f in lf)
    getters = [f for f in ctx.user_fns() if "TileManager" in (f.get("self_ty") or "") and any(c["fn"] in lfn for c in calls(f["body"])) and "Option<alloc::vec::Vec<u8>>" in f["ret"] and f["path"] not in lfn]
    if not getters or not lf:
        return no_anchor("R-LOOKUP", "lookup (function resolving an id through the id map to the fetcher)")
    for f in getters:
        fn = f["path"]
        fa = ctx.fa(f)
        seen = set()
        for p in fa.paths:
            gets = [e for e in p.events if e.kind == "call" and e.d["fn"] == HM + "get" and unmut(e.d["args"][0]) == self_field(roles["tiles"])]
            if len(gets) != 1 or unmut(gets[0].d["args"][1]) != role_param(fa, f, "u64"):
                obs.append(Ob("R-LOOKUP", fn, "resolves the requested id through the id map", False, "id-map lookups on this path: %d" % len(gets), rel(f["loc"])))
                continue
            got = unmut(gets[0].d["ret"])
            v = unmut(p.value)
            none_arm = knows(p, ("variant", got, "core::option::Option::None", True)) is not None
            if none_arm:
                seen.add("none")
                ok = is_call_to(v, lambda s: s == "core::result::Result::Ok") and is_call_to(v[2][0], lambda s: s == "core::option::Option::None") and len([e for e in p.events if e.kind == "call" and e.d["fn"] in lfn]) == 0
                obs.append(Ob("R-LOOKUP", fn, "unknown id ⇒ Ok(None) without touching the reader", ok, "returns %s" % tstr(v)[:80], gets[0].loc()))
            else:
                seen.add("some")
                ok = is_call_to(v, lambda s: s in lfn) and got in v[2] and self_field(roles["data"]) in v[2]
                obs.append(Ob("R-LOOKUP", fn, "known id ⇒ content of exactly that tile (fetcher called with the found tile and the bytes map)", ok, "returns %s" % tstr(v)[:140], gets[0].loc()))
        obs.append(Ob("R-LOOKUP", fn, "both arms present", seen == {"none", "some"}, "arms: %s" % sorted(seen), rel(f["loc"])))
    for f in lf:
        fn = f["path"]
        fa = ctx.fa(f)
        n = 0
        for p in fa.paths:
            dec = [d for fct, d in path_facts(p) if fct[0] == "variant" and fct[2] == HASH_CTOR and fct[3] is True]
            if not dec:
                continue
            n += 1
            h = ("proj", unmut(dec[-1].d["cond"]), "TileManagerTile::Hash.0")
            v = unmut(p.value)
            ok = False
            if is_call_to(v, lambda s: s == "core::result::Result::Ok") and v[2]:
                inner = v[2][0]
                maps_ = [V("param:" + n_) for n_, prm_ in zip(fa.param_names, f["params"]) if "HashMap<" in (prm_["ty"] or "")]
                def is_probe(g):
                    g = unmut(g)
                    return is_call_to(g, lambda s: s == HM + "get") and unmut(g[2][1]) == h and unmut(g[2][0]) in maps_
                ok = is_call_to(inner, lambda s: s.endswith("::cloned")) and is_probe(inner[2][0])
                if not ok:
                    # the same result spelled out: the probe is inspected, `None` is passed on, `Some(bytes)` is cloned
                    probes = [unmut(fct[1]) for fct, _d in path_facts(p) if fct[0] == "variant" and is_probe(fct[1])]
                    if is_call_to(inner, lambda s: s == "core::option::Option::None"):
                        ok = any(knows(p, ("variant", g, "core::option::Option::None", True)) is not None for g in probes)
                    elif is_call_to(inner, lambda s: s == "core::option::Option::Some") and inner[2]:
                        c = unmut(inner[2][0])
                        ok = is_call_to(c, lambda s: s.endswith(("Clone::clone", "::to_vec", "::to_owned"))) and c[2] and is_probe(c[2][0]) and \
                            knows(p, ("variant", unmut(c[2][0]), "core::option::Option::Some", True)) is not None
            reads = [e for e in p.events if e.kind == "call" and e.d["effects"]]
            obs.append(Ob("R-LOOKUP", fn, "hash-backed tile ⇒ clone of the bytes stored under its hash, no stream access", ok and not reads, "returns %s" % tstr(v)[:120], rel(f["loc"])))
        if n == 0:
            obs.append(Ob("R-LOOKUP", fn, "hash arm", False, "no path matching TileManagerTile::Hash", rel(f["loc"])))
    return obs


# ------------------------------------------------------------------------------------------------
# finish

def finishers(ctx):
    """the layout function: builds the FinishResult, itself or through helpers evaluated in place"""
    return [f for f in ctx.user_fns() if f["path"] not in ctx.inlinable and ctx.has_struct_inl(f, "tile_manager::FinishResult")]


def rle_fns(ctx):
    return ctx.rle_fns()


def _pair_fields(ctx, f_off, f_len, adt=None):
    """a local struct with exactly one u64 field (named f_off) and one u32 field (named f_len): an (offset, length) pair by its types"""
    for path, a in ctx.facts.adts.items():
        if adt is not None and path != adt:
            continue
        if a.get("kind") != "struct" or len(a["variants"]) != 1:
            continue
        fl = {x["name"]: x["ty"] for x in a["variants"][0]["fields"]}
        if set(fl) == {f_off, f_len} and fl[f_off] == "u64" and fl[f_len] == "u32":
            return True
    return False


def _pair_struct_of(ctx, ty):
    """(offset field, length field) of a local two-field struct with one u64 and one u32 field that `ty` names; None otherwise"""
    t = (ty or "").replace("&", "").replace("mut ", "").strip()
    a = ctx.facts.adts.get(t)
    if a is None or a.get("kind") != "struct" or len(a["variants"]) != 1:
        return None
    fl = a["variants"][0]["fields"]
    if len(fl) == 2 and sorted(x["ty"] for x in fl) == ["u32", "u64"]:
        return next(x["name"] for x in fl if x["ty"] == "u64"), next(x["name"] for x in fl if x["ty"] == "u32")
    return None


def _expand_pair_arg(ctx, args, tys):
    """the entry-pushing helper called with (entries, id, pair) where `pair` is a local (u64 offset, u32 length) struct: expanded to
    (entries, id, offset, length) — the fields of the literal when it is one, field reads of the value otherwise"""
    args = list(args)
    if len(args) == 3 and len(tys) == 3:
        pf = _pair_struct_of(ctx, tys[2])
        if pf is not None:
            v = args[2]
            while isinstance(v, tuple) and v and (v[0] == "mut" or (v[0] == "un" and v[1] == "*")):
                v = v[1] if v[0] == "mut" else v[2]
            if isinstance(v, tuple) and v and v[0] == "struct":
                return args[:2] + [struct_field(v, pf[0]), struct_field(v, pf[1])]
            return args[:2] + [("f", v, pf[0]), ("f", v, pf[1])]
    return args


def r_finish_pair(ctx):
    obs = []
    fins = finishers(ctx)
    if not fins:
        return no_anchor("R-FINISH-PAIR", "layout function (builds FinishResult{..})")
    rle = set(f["path"] for f in rle_fns(ctx))
    hf = set(f["path"] for f in hash_fns(ctx))
    lfn = set(f["path"] for f in lazy_fetchers(ctx))
    for f in fins:
        fn = f["path"]
        fa = ctx.fa(f)
        arms = set()
        for p in fa.paths:
            if p.exit not in ("ok", "tail"):
                continue
            pushes = [e for e in p.events if e.kind == "call" and e.d["fn"] in rle]
            incs = [e for e in p.events if e.kind == "assign" and e.d.get("compound") == "+" and (e.d.get("name") or e.d.get("place") is not None)]
            appends = [e for e in p.events if e.kind == "call" and e.d["fn"].endswith("Vec::<T, A>::append") or (e.kind == "call" and e.d["fn"].endswith("::extend_from_slice")) or (e.kind == "call" and e.d["fn"].endswith("Vec::<T, A>::extend"))]
            gets = []
            seen_probe = set()
            _adt, _roles = store_adt(ctx)
            store_maps = [self_field(n_) for n_ in (_roles or {}).values()]
            for fct, d in path_facts(p):
                if fct[0] == "variant" and is_call_to(fct[1], lambda s: s == HM + "get") and unmut(unmut(fct[1])[2][0]) in store_maps:
                    continue      # fetching an in-memory tile's bytes from the store itself is not the layout's dedup probe
                if fct[0] == "variant" and fct[2] == "core::option::Option::Some" and is_call_to(fct[1], lambda s: s == HM + "get") and d.loops and id(d) not in seen_probe:
                    seen_probe.add(id(d))
                    gets.append((d, fct[3]))
                # the entry API: Occupied = hit, Vacant = miss
                if fct[0] == "variant" and is_call_to(fct[1], lambda s: s == HM + "entry") and d.loops and id(d) not in seen_probe and fct[2].startswith("std::collections::hash::map::Entry::"):
                    seen_probe.add(id(d))
                    gets.append((d, (fct[2].endswith("::Occupied")) == (fct[3] is True)))
            mins = [e for e in p.events if e.kind == "call" and e.d["fn"] == HM + "insert" and e.loops]
            vins = [e for e in p.events if e.kind == "call" and e.d["fn"].startswith("std::collections::hash::map::VacantEntry::") and e.d["fn"].endswith("::insert") and e.loops]
            mins = mins + vins
            if not pushes and not appends:
                # zero iterations or a skipped tile: nothing may be counted or laid out
                obs.append(Ob("R-COUNTERS", fn, "no entry ⇒ no counter moves", not incs and not mins, "increments: %d" % len(incs), rel(f["loc"])))
                continue
            if len(pushes) != 1 or len(gets) != 1:
                obs.append(Ob("R-FINISH-PAIR", fn, "one entry per laid-out tile", False, "entry pushes: %d, dedup probes: %d" % (len(pushes), len(gets)), rel(f["loc"])))
                continue
            pu = pushes[0]
            hit = gets[0][1]
            gets = [gets[0][0]]
            arms.add("hit" if hit else "miss")
            probe = unmut(gets[0].d["cond"])
            hmap, hkey = probe[2][0], probe[2][1]
            pargs = _expand_pair_arg(ctx, pu.d["args"], pu.d.get("tys") or [])
            a = [unmut(x) for x in pargs]
            tid = a[1] if len(a) == 4 else None
            # tile id comes from the sorted iteration element
            ok_tid = tid is not None and tid[0] == "proj" and tid[2] == 0 and tid[1][0] == "elem"
            # the hash: payload of a Hash tile, else the content hash (same function as the adder uses) of the fetched bytes
            fetch = [e for e in p.events if e.kind == "call" and e.d["fn"] in lfn]
            content = unmut(fetch[0].d["ret"]) if fetch else None
            tile = tid[1] if ok_tid else None
            if content is None and tile is not None and _roles:
                # an in-memory tile borrowed straight from the store: the bytes kept under this very tile's stored hash (what the fetcher would clone)
                want_ = ("call", HM + "get", (self_field(_roles["data"]), ("proj", ("proj", tile, 1), "TileManagerTile::Hash.0")), None)
                for fct, _d in path_facts(p, pu.seq):
                    g_ = unmut(fct[1]) if fct[0] == "variant" else None
                    if g_ is not None and fct[2] == "core::option::Option::Some" and fct[3] is True and is_call_to(g_, lambda s_: s_ == HM + "get") and \
                            (g_[1], tuple(unmut(x_) for x_ in g_[2])) == (want_[1], want_[2]) and knows(p, ("variant", ("proj", tile, 1), HASH_CTOR, True), pu.seq) is not None:
                        content = g_
            ok_hash = False
            if tile is not None:
                tval = ("proj", tile, 1)
                if hkey == ("proj", tval, "TileManagerTile::Hash.0"):
                    ok_hash = knows(p, ("variant", tval, HASH_CTOR, True), gets[0].seq) is not None
                elif is_call_to(hkey, lambda s: s in hf) and content is not None and hkey[2][0] == content:
                    ok_hash = True
            obs.append(Ob("R-FINISH-PAIR", fn, "%s: dedup key = tile's hash (stored hash, or content hash of the fetched bytes)" % ("hit" if hit else "miss"), ok_hash and ok_tid, "key = %s" % tstr(hkey)[:100], gets[0].loc()))
            addr_inc = [e for e in incs if unmut(e.d["value"])[3] == C(1)]
            if hit:
                stored_pair = a[2:] == [("proj", probe, 0), ("proj", probe, 1)]
                if not stored_pair and len(a) == 4 and a[2][0] == "proj" and a[3][0] == "proj" and a[2][2] == 0 and a[3][2] == 1 and unmut(a[2][1]) == unmut(a[3][1]):
                    x_ = unmut(a[2][1])
                    while isinstance(x_, tuple) and x_ and x_[0] == "un" and x_[1] == "*":
                        x_ = unmut(x_[2])
                    # `*occupied.get()` of the entry that was probed
                    stored_pair = is_call_to(x_, lambda s: s.startswith("std::collections::hash::map::OccupiedEntry::") and s.endswith(("::get", "::get_mut", "::into_mut"))) and \
                        any(t == probe for t in subterms(x_))
                if not stored_pair and len(a) == 4 and a[2][0] == "f" and a[3][0] == "f" and unmut(a[2][1]) == unmut(a[3][1]) and a[2][2] != a[3][2]:
                    # the remembered pair is a small struct: its u64 field is the offset, its u32 field the length (the types keep them apart)
                    x_ = unmut(a[2][1])
                    while isinstance(x_, tuple) and x_ and x_[0] == "un" and x_[1] == "*":
                        x_ = unmut(x_[2])
                    stored_pair = x_ == probe and _pair_fields(ctx, a[2][2], a[3][2])
                ok = not appends and not mins and stored_pair
                obs.append(Ob("R-FINISH-PAIR", fn, "hit: reuses the stored (offset, length), appends nothing", ok, "entry = (%s, %s); appends: %d" % (tstr(a[2])[:60], tstr(a[3])[:60], len(appends)), pu.loc()))
                obs.append(Ob("R-COUNTERS", fn, "hit: exactly one counter (+1) moves", len(incs) == 1 and len(addr_inc) == 1, "increments: %d" % len(incs), pu.loc()))
            else:
                ok1 = len(appends) == 1 and len(mins) == 1
                obs.append(Ob("R-FINISH-PAIR", fn, "miss: bytes appended once and (offset, length) remembered once", ok1, "appends: %d, inserts: %d" % (len(appends), len(mins)), pu.loc()))
                if ok1:
                    ap = appends[0]
                    buf_before = ap.d["args"][0]       # version of the data buffer at the time of the append
                    src = unmut(ap.d["args"][1])
                    off, ln = a[2], a[3]
                    want_off = ("cast", "u64", ("call", "len", (buf_before,), None), "usize")
                    ok_off = pargs[2] == want_off or (unmut(pargs[2]) == unmut(want_off) and _len_taken_before(p, pargs[2], ap))
                    obs.append(Ob("R-FINISH-PAIR", fn, "miss: offset = length of the data buffer before the append", bool(ok_off), "offset = %s" % tstr(pargs[2])[:100], pu.loc()))
                    ok_len = isinstance(ln, tuple) and ln[0] == "cast" and unmut(ln[2]) == ("call", "len", (src,), None) and src == content
                    obs.append(Ob("R-FINISH-PAIR", fn, "miss: length = length of the appended content = the tile's bytes", ok_len, "length = %s; appended %s" % (tstr(ln)[:80], tstr(src)[:60]), pu.loc()))
                    mi = [unmut(x) for x in mins[0].d["args"]]
                    if mins[0] in vins:
                        # slot.insert(value) on the vacant entry of the probe: same map, same key
                        mi = [hmap, hkey, mi[1]] if any(t == probe for t in subterms(mi[0])) else [None, None, mi[1]]
                    val_ok = mi[2] == ("tup", (off, ln))
                    if not val_ok and isinstance(mi[2], tuple) and mi[2] and mi[2][0] == "struct" and len(mi[2][2]) == 2:
                        fl = dict(mi[2][2])
                        names = list(fl)
                        for fo, fl_ in ((names[0], names[1]), (names[1], names[0])):
                            if unmut(fl[fo]) == off and unmut(fl[fl_]) == ln and _pair_fields(ctx, fo, fl_, mi[2][1]):
                                val_ok = True
                    ok_ins = mi[0] == hmap and mi[1] == hkey and val_ok
                    obs.append(Ob("R-FINISH-PAIR", fn, "miss: the same (offset, length) remembered under the same key in the probed map", ok_ins, "insert(%s, %s)" % (tstr(mi[1])[:60], tstr(mi[2])[:80]), mins[0].loc()))
                v_ = unmut(p.value)
                fr_ = v_[2][0] if is_call_to(v_, lambda s: s == "core::result::Result::Ok") and v_[2] else None
                ntc_ = struct_field(fr_, "num_tile_content") if fr_ is not None and fr_[0] == "struct" else None
                derived = _is_len_of(ntc_, hmap)
                two = len(incs) == 2 and len(addr_inc) == 2 and len(set(_ctr_key(e) for e in incs)) == 2
                one_plus_len = len(incs) == 1 and len(addr_inc) == 1 and derived
                obs.append(Ob("R-COUNTERS", fn, "miss: the addressed-tiles counter and the content count both advance by one", two or one_plus_len,
                              "increments: %d; num_tile_content derived from the dedup table's size: %s" % (len(incs), derived), pu.loc()))
            # result fields by role
            v = unmut(p.value)
            fr = v[2][0] if is_call_to(v, lambda s: s == "core::result::Result::Ok") and v[2] else None
            if fr is None or fr[0] != "struct":
                obs.append(Ob("R-COUNTERS", fn, "result", False, "success value is not FinishResult{..}", rel(f["loc"])))
                continue
            ents = unmut(pu.d["args"][0])
            dirt = struct_field(fr, "directory")
            ok_dir = any(_same_root(t, ents) for t in subterms(dirt))
            obs.append(Ob("R-COUNTERS", fn, "directory = the entries built in the loop", ok_dir, "directory = %s" % tstr(dirt)[:80], rel(f["loc"])))
            nte = struct_field(fr, "num_tile_entries")
            ok_nte = isinstance(nte, tuple) and nte[0] == "cast" and is_call_to(nte[2], lambda s: s == "len") and \
                (_same_root(nte[2][2][0], ents) or (unmut(nte[2][2][0])[0] == "f" and _same_root(unmut(nte[2][2][0])[1], ents)))      # (… or the entry vector held by the struct the merge works on)
            obs.append(Ob("R-COUNTERS", fn, "num_tile_entries = entries.len() after the loop", ok_nte and not _in_loop_len(p, fa, nte), "num_tile_entries = %s" % tstr(nte)[:80], rel(f["loc"])))
            # counters: addressed = the variable that moved on this path in both arms; content = the one that moves only on miss
            moved = {_ctr_key(e): unmut(e.d["value"]) for e in incs}
            # (a counter kept in a field of a local struct: reading that field after the loop yields what the only increment on this path stored)
            by_place_ = {unmut(e.d["place"]): unmut(e.d["value"]) for e in incs if e.d.get("place") is not None}
            if hit and len(moved) == 1:
                (var, val), = moved.items()
                na_ = struct_field(fr, "num_addressed_tiles")
                na_ = by_place_.get(unmut(na_), na_) if na_ is not None else na_
                obs.append(Ob("R-COUNTERS", fn, "num_addressed_tiles = counter incremented once per entry push", na_ == val, "num_addressed_tiles = %s" % tstr(struct_field(fr, "num_addressed_tiles"))[:80], rel(f["loc"])))
                ntc = struct_field(fr, "num_tile_content")
                ok_c = (isinstance(ntc, tuple) and ntc[0] == "v" and ntc != val[2]) or (_is_len_of(ntc, hmap) and not mins) or \
                    (isinstance(ntc, tuple) and ntc[0] == "f" and ntc != val[2] and not any(e.d.get("place") is not None and unmut(e.d["place"])[0] == "f" and unmut(e.d["place"])[2] == ntc[2] for e in incs))
                obs.append(Ob("R-COUNTERS", fn, "num_tile_content does not move on a dedup hit", ok_c, "num_tile_content = %s" % tstr(ntc)[:80], rel(f["loc"])))
            if not hit and len(moved) == 2:
                vals = set(moved.values())
                na, nc = struct_field(fr, "num_addressed_tiles"), struct_field(fr, "num_tile_content")
                # a counter kept in a field of a local struct: reading that field after the loop yields what the (only) increment on this path stored
                by_place = {unmut(e.d["place"]): unmut(e.d["value"]) for e in incs if e.d.get("place") is not None}
                na, nc = by_place.get(unmut(na), na) if na is not None else na, by_place.get(unmut(nc), nc) if nc is not None else nc
                obs.append(Ob("R-COUNTERS", fn, "miss: both counters reach the result, one each", {na, nc} == vals and na != nc, "addressed = %s, content = %s" % (tstr(na)[:50], tstr(nc)[:50]), rel(f["loc"])))
            dat = struct_field(fr, "data")
            if appends:
                ok_dat = _same_root(dat, unmut(appends[0].d["args"][0]))
                obs.append(Ob("R-COUNTERS", fn, "data = the buffer the contents were appended to", ok_dat, "data = %s" % tstr(dat)[:60], rel(f["loc"])))
        obs.append(Ob("R-FINISH-PAIR", fn, "both dedup arms present", arms == {"hit", "miss"}, "arms: %s" % sorted(arms), rel(f["loc"])))
        # every counter starts at 0 and only ever moves by +1
        counters = set()
        for p in fa.paths:
            for e in p.events:
                if e.kind == "assign" and e.d.get("compound") == "+" and e.d.get("name") and e.loops:
                    counters.add(e.d["name"])
        for atom, srcs in sorted(fa.havoc_src.items(), key=lambda kv: str(kv[0])):
            nm = atom[1].rpartition(":")[2] if atom[0] == "v" else None
            if nm in counters:
                vals = set(unmut(x) for x in srcs)
                ok0 = C(0) in vals
                okinc = all(v == C(0) or v == atom or aff_eq(affine(v), (1, {atom: 1})) for v in vals)
                obs.append(Ob("R-COUNTERS", fn, "counter `%s` starts at 0 and moves only by +1" % nm, ok0 and okinc, "values the counter takes: %s" % sorted(tstr(v)[:40] for v in vals), rel(f["loc"])))
    return obs


def _is_len_of(t, container):
    """t is `container.len()` (possibly cast), for the same container variable in any mutation version"""
    t = unmut(t) if t is not None else None
    while isinstance(t, tuple) and t and t[0] == "cast":
        t = t[2]
    return isinstance(t, tuple) and t and t[0] == "call" and t[1] == "len" and unmut(t[2][0]) == unmut(container)


def _ctr_key(e):
    """identity of an incremented counter: the variable, or the field place for a counter kept in a struct"""
    return (e.d["var"], unmut(e.d["place"]) if e.d.get("place") is not None else None)


def _same_root(a, b):
    """same variable, ignoring mutation versions"""
    return unmut(a) == unmut(b)


def _len_taken_before(p, off_term, append_ev):
    # the versioned term already says so: len(<buffer version at append time>)
    return False


def _in_loop_len(p, fa, t):
    return False


def r_rle_dep(ctx):
    obs = []
    fs = rle_fns(ctx)
    if not fs:
        return no_anchor("R-RLE-DEP", "run-length merge (function using last_mut() on the entries and pushing Entry{..})")
    for f in fs:
        fn = f["path"]
        fa = ctx.fa(f)
        # the run-length merge's parameters by type and order: (entries: &mut Vec<Entry>, tile_id: u64, offset: u64, length: u32)
        P = {"entries": role_param(fa, f, "entryvec"), "tile_id": role_param(fa, f, "u64", 0), "offset": role_param(fa, f, "u64", 1), "length": role_param(fa, f, "u32")}
        for n_, prm_ in zip(fa.param_names, f["params"]):
            pf_ = _pair_struct_of(ctx, prm_["ty"])
            if pf_ is not None:
                # (offset, length) arrive as one local pair struct: its u64 field is the offset, its u32 field the length
                P["offset"], P["length"] = ("f", V("param:" + n_), pf_[0]), ("f", V("param:" + n_), pf_[1])
        ext = 0
        for p in fa.paths:
            stores = [e for e in p.events if e.kind == "assign" and e.d.get("place") is not None and unmut(e.d["place"])[0] == "f" and unmut(e.d["place"])[2] == "run_length"]
            pushes = [e for e in p.events if e.kind == "call" and e.d["fn"].endswith("Vec::<T, A>::push")]
            if stores:
                ext += 1
                st = stores[0]
                last = unmut(st.d["place"])[1]
                ok_inc = aff_eq(affine(unmut(st.d["value"])), (1, {("f", last, "run_length"): 1})) and len(stores) == 1 and not pushes
                obs.append(Ob("R-RLE-DEP", fn, "extend arm: run_length += 1 and nothing else", ok_inc, "store %s = %s; pushes: %d" % (tstr(unmut(st.d["place"]))[:60], tstr(unmut(st.d["value"]))[:60], len(pushes)), st.loc()))
                is_last = is_call_to(last, lambda s: s.endswith("::last_mut") or s.endswith("::last"))
                adj = off = False
                extra = []
                want = (0, {P.get("tile_id"): 1, ("f", last, "tile_id"): -1, ("f", last, "run_length"): -1})
                wo = (0, {P.get("offset"): 1, ("f", last, "offset"): -1})
                wl = (0, {P.get("length"): 1, ("f", last, "length"): -1})

                def _is(diff, w):
                    return aff_eq(diff, w) or aff_eq(diff, (0, {k: -v for k, v in w[1].items()}))
                rl = ("f", last, "run_length")
                for fct, d in path_facts(p, st.seq):
                    if fct[0] == "rel":
                        a, b = unmut(fct[2]), unmut(fct[3])
                        diff = aff_sub(affine(a), affine(b))
                        if fct[1] == "==" and _is(diff, want):
                            adj = True
                        elif fct[1] == "==" and _is(diff, wo):
                            off = True
                        elif fct[1] == "==" and _is(diff, wl):
                            pass        # implied by equal offsets of non-overlapping contents; harmless either way
                        elif fct[1] != "==" and ((a == rl and b[0] == "c") or (b == rl and a[0] == "c")):
                            pass        # an overflow guard on the counter itself
                        else:
                            extra.append("%s %s %s" % (tstr(a)[:40], fct[1], tstr(b)[:40]))
                    elif fct[0] == "empty" and fct[2] is False and is_last and unmut(fct[1]) == unmut(last[2][0]):
                        pass        # "there is a last entry" said differently
                    elif fct[0] in ("bool", "empty"):
                        extra.append("%s(%s) is %s" % (fct[0], tstr(unmut(fct[1]))[:50], fct[2]))
                obs.append(Ob("R-RLE-DEP", fn, "extend arm requires adjacency: tile_id == last.tile_id + last.run_length", adj and is_last, "adjacency fact on the path: %s" % adj, st.loc()))
                obs.append(Ob("R-RLE-DEP", fn, "extend arm requires equal offsets: last.offset == offset", off and is_last, "offset fact on the path: %s" % off, st.loc()))
                obs.append(Ob("R-RLE-DEP", fn, "extend arm is taken whenever id is adjacent and offsets agree (no further condition: runs are maximal)", not extra,
                              "additional conditions on the extending path: %s" % ("; ".join(extra) or "none"), st.loc()))
            else:
                ok = len(pushes) == 1
                if ok:
                    ent = unmut(pushes[0].d["args"][1])
                    ok = ent[0] == "struct" and ent[1] == ENTRY and struct_field(ent, "tile_id") == P.get("tile_id") and struct_field(ent, "offset") == P.get("offset") and \
                        struct_field(ent, "length") == P.get("length") and struct_field(ent, "run_length") == C(1) and unmut(pushes[0].d["args"][0]) == P.get("entries")
                obs.append(Ob("R-RLE-DEP", fn, "other arms push Entry{tile_id, offset, length, run_length: 1} exactly once", ok, "pushes: %d" % len(pushes), rel(f["loc"])))
        obs.append(Ob("R-RLE-DEP", fn, "an extend arm exists", ext >= 1, "paths extending a run: %d" % ext, rel(f["loc"])))
    return obs


SORTS_BY = ("alloc::slice::<impl [T]>::sort_by", "alloc::slice::<impl [T]>::sort_unstable_by", "core::slice::<impl [T]>::sort_unstable_by")
SORTS_KEY = ("alloc::slice::<impl [T]>::sort_by_key", "alloc::slice::<impl [T]>::sort_by_cached_key", "core::slice::<impl [T]>::sort_unstable_by_key")
HASH_ITER = ("::iter", "::into_iter", "::keys", "::values", "::drain", "::into_keys", "::into_values", "::iter_mut", "::values_mut")


def _hash_iter_sources(t):
    out = []
    for s in subterms(t):
        if s[0] == "call" and s[1].endswith(HASH_ITER) and s[2]:
            if _is_hash_container(s):
                out.append(s)
    return out


def _is_hash_container(s):
    # resolved impl tells: `<HashMap<..> as IntoIterator>::into_iter`, or an inherent HashMap/HashSet method
    return "hash::map::HashMap" in s[1] or "hash::set::HashSet" in s[1]


def r_order(ctx):
    """R-ORDER / R-CLUSTERED: the layout loop iterates the id map's contents only after an ascending sort by tile id"""
    obs = []
    fins = finishers(ctx)
    if not fins:
        return no_anchor("R-ORDER", "layout function")
    for f in fins:
        fn = f["path"]
        fa = ctx.fa(f)
        n = 0
        for p in fa.paths:
            if p.exit not in ("ok", "tail"):
                continue
            for e in p.events:
                if e.kind == "loop" and e.d["what"] == "enter" and e.d.get("iter") is not None:
                    it = e.d["iter"]
                    srcs = _hash_iter_sources_resolved(p, unmut(it))
                    if not srcs:
                        filled = _filled_from_hash(ctx, p, e, it)
                        if filled is None:
                            continue
                        # the vector was filled element by element in a loop over the map: the sort must come after the last push
                        n += 1
                        base, last_push = filled
                        sorts = [s for s in p.events if s.kind == "call" and last_push.seq < s.seq < e.seq and (s.d["fn"] in SORTS_BY or s.d["fn"] in SORTS_KEY) and _vec_base(s.d["args"][0]) == base]
                        ok, why = (False, "no sort of the iterated vector between its last push and the loop")
                        if sorts:
                            ok, why = _asc_by_id(sorts[-1], ctx)
                        obs.append(Ob("R-ORDER", fn, "hash-map contents are sorted ascending by tile id before the layout loop", ok, why, e.loc()))
                        continue
                    n += 1
                    # a sort of this very vector precedes the loop
                    sorts = [s for s in p.events if s.kind == "call" and s.seq < e.seq and (s.d["fn"] in SORTS_BY or s.d["fn"] in SORTS_KEY) and unmut(s.d["args"][0]) == unmut(it)]
                    ok = False
                    why = "no sort of the iterated vector before the loop"
                    if sorts:
                        s = sorts[-1]
                        ok, why = _asc_by_id(s, ctx)
                    obs.append(Ob("R-ORDER", fn, "hash-map contents are sorted ascending by tile id before the layout loop", ok, why, e.loc()))
        if n == 0:
            obs.append(Ob("R-ORDER", fn, "layout loop over the id map", False, "no loop over the id map's contents found", rel(f["loc"])))
    # no other hash-ordered iteration may reach emitted bytes: on the write path only the sorted loop iterates a hash container
    writers = ctx.archive_writers()
    reach = ctx.reachable([w["path"] for w in writers]) if writers else set()
    for path in sorted(reach):
        g = ctx.fn(path)
        if g is None:
            continue
        for c in calls(g["body"]):
            res = c.get("resolved") or c["fn"]
            if c["fn"].endswith(HASH_ITER) and ("hash::map::HashMap" in res or "hash::set::HashSet" in res):
                in_fin = path in [f["path"] for f in fins]
                obs.append(Ob("R-ORDER", path, "hash-ordered iteration on the write path: %s" % c["fn"].split("::")[-1], in_fin,
                              "iteration over a hash container in %s%s" % (path, " (the sorted layout source)" if in_fin else " reaches the writer unsorted"), rel(c["loc"])))
    return obs


def _vec_base(t):
    t = unmut(t)
    while True:
        if isinstance(t, tuple) and t and t[0] == "mut":
            t = t[1]
        elif is_call_to(t, lambda s_: s_.endswith(("::into_iter", "::iter", "::iter_mut", "::drain"))) and t[2]:
            t = unmut(t[2][0])
        else:
            return t


def _filled_from_hash(ctx, p, loop_ev, it):
    """the iterated vector received its elements by `push` inside an earlier loop that walks a hash container (by iterator call or directly, a field
    of the store whose type is a hash map): returns (vector, last such push)"""
    base = _vec_base(it)
    adt, roles = store_adt(ctx)
    hash_fields = [self_field(n_) for n_ in (roles or {}).values()]
    last = None
    for x in p.events:
        if not (x.kind == "call" and x.seq < loop_ev.seq and x.d["fn"].endswith("Vec::<T, A>::push") and x.loops and _vec_base(x.d["args"][0]) == base):
            continue
        enter = [l for l in p.events if l.kind == "loop" and l.d["what"] == "enter" and l.d.get("lid") == x.loops[-1]]
        if not enter or enter[0].d.get("iter") is None:
            continue
        src = unmut(enter[0].d["iter"])
        if _hash_iter_sources_resolved(p, src) or _vec_base(src) in hash_fields:
            last = x
    return (base, last) if last is not None else None


def _hash_iter_sources_resolved(p, it):
    out = []
    for s in subterms(it):
        if s[0] == "call" and s[1].endswith(HASH_ITER) and s[2]:
            # find the event to read the resolved impl
            for e in p.events:
                if e.kind == "call" and unmut(e.d["ret"]) == s:
                    res = e.d.get("resolved") or e.d["fn"]
                    if "hash::map::HashMap" in res or "hash::set::HashSet" in res:
                        out.append(s)
    return out


def _asc_by_id(s, ctx=None):
    clos = unmut(s.d["args"][1]) if len(s.d["args"]) > 1 else None
    if ctx is not None and isinstance(clos, tuple) and clos and clos[0] == "call" and not clos[2]:
        # a comparator / key function given by name: a local function with one path whose value is judged like a closure body
        g = next((f_ for f_ in ctx.user_fns() if f_["path"] == clos[1]), None)
        if g is not None:
            ga = ctx.fa(g)
            if len(ga.paths) == 1 and not [e for e in ga.paths[0].events if e.kind == "call" and e.d["effects"]]:
                body = unmut(ga.paths[0].value)
                ps = [V("param:" + n_) for n_ in ga.param_names]
                if s.d["fn"] in SORTS_BY and len(ps) == 2:
                    ok = is_call_to(body, lambda x: x.endswith("::cmp") or x.endswith("::partial_cmp")) and len(body[2]) == 2 and \
                        unmut(body[2][0]) == ("f", ps[0], "0") and unmut(body[2][1]) == ("f", ps[1], "0")
                    return bool(ok), "comparator %s = %s" % (clos[1], tstr(body)[:80])
                if s.d["fn"] in SORTS_KEY and len(ps) == 1:
                    ok = body == ("f", ps[0], "0") or body == ("proj", ps[0], 0) or body == ("un", "*", ("f", ps[0], "0"))
                    return bool(ok), "key %s = %s" % (clos[1], tstr(body)[:80])
    if not (isinstance(clos, tuple) and clos[0] == "clos" and clos[2]):
        return False, "sort comparator is not a closure literal"
    body = clos[2][0]
    cid = clos[1]
    if s.d["fn"] in SORTS_BY:
        if is_call_to(body, lambda x: x.endswith("::cmp") or x.endswith("::partial_cmp")) and len(body[2]) == 2:
            a, b = body[2]
            ok = a == ("f", V("clos%s:a" % cid), "0") and b == ("f", V("clos%s:b" % cid), "0") or \
                (a[0] == "f" and b[0] == "f" and a[2] == "0" and b[2] == "0" and a[1][0] == "v" and b[1][0] == "v" and _param_order(s, a[1], b[1]))
            return bool(ok), "comparator = %s" % tstr(body)[:100]
        return False, "comparator = %s (not a.0.cmp(&b.0))" % tstr(body)[:100]
    ok = (body[0] == "f" and body[2] == "0" and body[1][0] == "v") or (body[0] == "proj" and body[2] == 0 and body[1][0] == "v")
    return ok, "key = %s" % tstr(body)[:80]


def _param_order(s, a, b):
    """closure parameters in declaration order: a is the first, b the second"""
    node = s.d["arg_nodes"][1]
    while node is not None and node["k"] != "Closure":
        node = node.get("e")
    if node is None or len(node["params"]) != 2:
        return False
    from hir import fmt_pat
    n0, n1 = fmt_pat(node["params"][0]), fmt_pat(node["params"][1])
    return a[1].endswith(":" + n0) and b[1].endswith(":" + n1) and n0 != n1


def r_hashid(ctx):
    """R-HASHID: content identity must not be decided by the 64-bit hash alone"""
    obs = []
    adt, roles = store_adt(ctx)
    if adt is None:
        return no_anchor("R-HASHID", "tile store")
    n = 0
    for f in adders(ctx, roles):
        fa = ctx.fa(f)
        for p in fa.paths:
            for e in p.events:
                if e.kind == "call" and e.d["fn"] == HM + "insert" and unmut(e.d["args"][0]) == self_field(roles["data"]):
                    n += 1
                    content = unmut(e.d["args"][2])
                    cmpd = _bytes_compared(p, e.seq, content)
                    obs.append(Ob("R-HASHID", f["path"], "bytes stored under a hash key overwrite what other ids resolve to without a byte comparison", cmpd,
                                  "insert(hash, bytes) into the hash→bytes map; byte comparison of the incoming content on the path: %s" % cmpd, e.loc()))
    for f in finishers(ctx):
        fa = ctx.fa(f)
        seen = False
        for p in fa.paths:
            for fct, d in path_facts(p):
                if ((fct[0] == "variant" and fct[2] == "core::option::Option::Some" and fct[3] is True and is_call_to(fct[1], lambda s: s == HM + "get")) or
                        (fct[0] == "variant" and fct[2] == "std::collections::hash::map::Entry::Occupied" and fct[3] is True and is_call_to(fct[1], lambda s: s == HM + "entry"))) and d.loops:
                    fetch = [e for e in p.events if e.kind == "call" and e.d["fn"] in set(x["path"] for x in lazy_fetchers(ctx))]
                    content = unmut(fetch[0].d["ret"]) if fetch else None
                    cmpd = content is not None and _bytes_compared(p, len(p.events), content)
                    if not seen:
                        n += 1
                        seen = True
                        obs.append(Ob("R-HASHID", f["path"], "dedup hit reuses a stored (offset, length) for content that was never compared byte-wise", cmpd,
                                      "probe %s; byte comparison of the tile's content on the path: %s" % (tstr(unmut(d.d["cond"]))[:80], cmpd), d.loc()))
    if n == 0:
        return no_anchor("R-HASHID", "dedup sites (bytes-map insert / layout probe)")
    return obs


def _bytes_compared(p, upto, content):
    for e in p.events:
        if e.seq >= upto:
            break
        if e.kind == "cmp" and e.d["op"] in ("==", "!=") and e.d.get("ovl") and ("Vec<u8>" in (e.d["lty"] or "") or "[u8]" in (e.d["lty"] or "")):
            if unmut(e.d["l"]) == content or unmut(e.d["r"]) == content:
                return True
        if e.kind == "call" and e.d["fn"].endswith(("::eq", "::ne", "::cmp")) and any("Vec<u8>" in t or "[u8]" in t for t in e.d["tys"]):
            if content in [unmut(a) for a in e.d["args"]]:
                return True
    return False


def r_hashfn(ctx):
    """R-HASHFN: the content hash is a function of the whole content: on every path the value is fed into the hasher whose `finish()` is returned"""
    obs = []
    hfs = hash_fns(ctx)
    if not hfs:
        return no_anchor("R-HASHFN", "content hash function (calls Hasher::finish)")
    for f in hfs:
        fa = ctx.fa(f)
        vparams = [V("param:" + n) for n in fa.param_names]
        for p in fa.paths:
            fins = [e for e in p.events if e.kind == "call" and e.d["fn"] == "core::hash::Hasher::finish"]
            ok = False
            why = "no Hasher::finish on this path"
            if fins:
                fin = fins[-1]
                hasher = unmut(fin.d["args"][0])
                feeds = [e for e in p.events if e.kind == "call" and e.seq < fin.seq and e.d["fn"].endswith(("::hash", "::write", "::hash_slice")) and len(e.d["args"]) == 2
                         and unmut(e.d["args"][1]) == hasher and unmut(e.d["args"][0]) in vparams]
                feeds += [e for e in p.events if e.kind == "call" and e.seq < fin.seq and e.d["fn"].endswith("Hasher::write") and len(e.d["args"]) == 2
                          and unmut(e.d["args"][0]) == hasher and any(v in leaves(e.d["args"][1]) or unmut(e.d["args"][1]) == v for v in vparams)]
                ret_ok = unmut(p.value) == unmut(fin.d["ret"])
                ok = bool(feeds) and ret_ok
                why = "%d feed(s) of the value parameter into the hasher before finish(); returns the finish() result: %s" % (len(feeds), ret_ok)
            obs.append(Ob("R-HASHFN", f["path"], "hash = finish() of a hasher that was fed the value", ok, why, fins[-1].loc() if fins else rel(f["loc"])))
    return obs


def r_hash_noleak(ctx):
    """R-HASH-NOLEAK: a content hash is only ever a map key (or the Hash(..) tag); it never reaches emitted data or an ordering decision"""
    obs = []
    hf = set(f["path"] for f in hash_fns(ctx))
    if not hf:
        return no_anchor("R-HASH-NOLEAK", "content hash function (calls Hasher::finish)")
    n = 0
    for f in ctx.user_fns():
        if f["path"] in hf:
            continue
        uses_hash = any(c["fn"] in hf for c in calls(f["body"])) or any(n2["k"] in ("Match", "LetCond", "Let") and _pat_has_ctor(n2.get("pat"), HASH_CTOR) for n2 in walk(f["body"])) or \
            any(n2["k"] == "Match" and any(_pat_has_ctor(a["pat"], HASH_CTOR) for a in n2["arms"]) for n2 in walk(f["body"]))
        if not uses_hash:
            continue
        fa = ctx.fa(f)
        bad = []
        for p in fa.paths:
            for e in p.events:
                if e.kind == "call":
                    if e.d.get("inlined"):
                        continue      # the helper's own uses of the value are on this path
                    for i, a in enumerate(e.d["args"]):
                        a = unmut(a)
                        if _is_hash_value(a, hf):
                            fnm = e.d["fn"]
                            okc = (fnm.startswith(HM) and i == 1) or fnm == HASH_CTOR or fnm in ("core::option::Option::Some",)
                            if not okc:
                                bad.append((e, fnm))
                elif e.kind in ("cmp", "arith"):
                    for side in ("l", "r"):
                        if e.d.get(side) is not None and _is_hash_value(unmut(e.d[side]), hf):
                            bad.append((e, e.kind))
                elif e.kind == "struct":
                    for nme, v in e.d["value"][2]:
                        if _is_hash_value(unmut(v), hf):
                            bad.append((e, "struct field " + nme))
        n += 1
        keys = sorted(set("%s" % w for _, w in bad))
        obs.append(Ob("R-HASH-NOLEAK", f["path"], "hash values are used only as map keys / Hash(..) tags", not bad,
                      "other uses: %s" % (", ".join(keys) or "none"), bad[0][0].loc() if bad else rel(f["loc"])))
    if n == 0:
        return no_anchor("R-HASH-NOLEAK", "functions handling content hashes")
    return obs


def _is_hash_value(a, hf):
    if is_call_to(a, lambda s: s in hf):
        return True
    if isinstance(a, tuple) and a and a[0] == "proj" and isinstance(a[2], str) and a[2].startswith("TileManagerTile::Hash."):
        return True
    return False


def r_clustered(ctx):
    """R-CLUSTERED: the writer may hard-wire clustered=true only because layout order is id order (R-ORDER) and entries/data are produced by one pass"""
    from rules_writer import writer_paths, WriterPath
    obs = []
    for f, fa, oks in writer_paths(ctx):
        for p in (oks or []):
            w = WriterPath(ctx, fa, p)
            if not w.ok:
                continue
            cl = struct_field(w.header, "clustered")
            fr = getattr(w, "finish_result", None)
            src_ok = fr is not None and fr[1] in [x["path"] for x in finishers(ctx)]
            obs.append(Ob("R-CLUSTERED", f["path"], "clustered flag is backed by the sorted layout pass", cl == ("lit", "bool", True) and src_ok or cl == ("lit", "bool", False),
                          "clustered = %s; data/directory come from %s" % (tstr(cl), tstr(fr)[:60] if fr else "?"), w.hdr.loc()))
            # directory written = the layout result's directory
            roots = w.sections.get("root", [])
            ok_dir = bool(roots) and fr is not None and any(a == ("f", fr, "directory") or (isinstance(a, tuple) and ("f", fr, "directory") in list(subterms(a))) for a in [unmut(x) for x in roots[0][0].d["args"]])
            obs.append(Ob("R-CLUSTERED", f["path"], "root/leaf directories are built from the layout result's entries", ok_dir, "root writer args: %s" % (", ".join(tstr(unmut(x))[:40] for x in roots[0][0].d["args"]) if roots else "none"), w.hdr.loc()))
    if not obs:
        return no_anchor("R-CLUSTERED", "archive writer")
    return obs


def r_listing(ctx):
    """R-LISTING (C04): the id listing and the tile count are taken from the same id map the lookups use"""
    obs = []
    adt, roles = store_adt(ctx)
    if adt is None:
        return no_anchor("R-LISTING", "tile store")
    idmap = self_field(roles["tiles"])
    found = {"list": 0, "count": 0}
    lazy_list = set()
    for f in ctx.user_fns():
        if "TileManager" not in (f.get("self_ty") or ""):
            continue
        fa = ctx.fa(f)
        if "Iterator<Item = &u64>" in f["ret"] and len(fa.paths) == 1:
            # the listing handed out lazily: the keys iterator itself (the public wrapper collects it, checked below)
            found["list"] += 1
            v = unmut(fa.paths[0].value)
            ok = is_call_to(v, lambda s: s == HM + "keys") and unmut(v[2][0]) == idmap
            obs.append(Ob("R-LISTING", f["path"], "listing = keys of the id map", ok, "returns %s" % tstr(v)[:100], rel(f["loc"])))
            lazy_list.add(f["path"])
            continue
        if "Vec<&u64>" in f["ret"] and len(fa.paths) > 1:
            # the listing written as a loop: a fresh vector that receives every key of the id map, unconditionally
            found["list"] += 1
            ok, entered = True, False
            for p in fa.paths:
                base = _vec_base(p.value)
                ok = ok and p.exit not in ("err", "panic") and is_call_to(base, lambda s: s.endswith(("Vec::<T>::new", "Vec::<T>::with_capacity"))) and \
                    not any(d.d["how"] == "if" and d.loops for d in p.decisions())
                for e in p.events:
                    if e.kind == "loop" and e.d["what"] == "enter":
                        entered = True
                        it = unmut(e.d.get("iter")) if e.d.get("iter") is not None else None
                        ok = ok and is_call_to(it, lambda s: s == HM + "keys") and unmut(it[2][0]) == idmap
                        pu = [x for x in p.events if x.kind == "call" and x.d["fn"].endswith("Vec::<T, A>::push") and x.loops and x.loops[-1] == e.d["lid"]]
                        ok = ok and len(pu) == 1 and _vec_base(pu[0].d["args"][0]) == base and unmut(pu[0].d["args"][1]) == ("elem", it, e.d["lid"])
                    elif e.kind == "call" and e.d["fn"].endswith("Vec::<T, A>::push") and not e.loops:
                        ok = False
            obs.append(Ob("R-LISTING", f["path"], "listing = keys of the id map", ok and entered, "a loop pushing into %s" % tstr(_vec_base(fa.paths[0].value))[:60], rel(f["loc"])))
            continue
        if len(fa.paths) != 1:
            continue
        v = unmut(fa.paths[0].value)
        if "Vec<&u64>" in f["ret"]:
            found["list"] += 1
            ok = is_call_to(v, lambda s: s.endswith("::collect")) and is_call_to(v[2][0], lambda s: s == HM + "keys") and v[2][0][2][0] == idmap
            obs.append(Ob("R-LISTING", f["path"], "listing = keys of the id map", ok, "returns %s" % tstr(v)[:100], rel(f["loc"])))
        elif f["ret"] == "usize" and fa.param_names == ["self"]:
            found["count"] += 1
            ok = v == ("call", "len", (idmap,), None)
            obs.append(Ob("R-LISTING", f["path"], "count = size of the id map", ok, "returns %s" % tstr(v)[:100], rel(f["loc"])))
    for k, n in found.items():
        if n == 0:
            obs.append(Ob("R-LISTING", "<anchor>", "store %s function" % k, False, "anchor not found: TileManager method returning %s" % ("Vec<&u64>" if k == "list" else "usize")))
    # public wrappers forward unchanged
    tm = ("f", V("param:self"), "tile_manager")
    for f in ctx.user_fns():
        if not f["path"].startswith("pmtiles::PMTiles") or f["vis"] != "pub":
            continue
        name = f["path"].rpartition("::")[2]
        if name in ("tile_ids", "num_tiles", "remove_tile", "add_tile", "get_tile_by_id", "get_tile_by_id_async"):
            fa = ctx.fa(f)
            ok = True
            for p in fa.paths:
                cs = [e for e in p.events if e.kind == "call" and e.d["fn"].startswith("tile_manager::TileManager")]
                ok = ok and len(cs) == 1 and unmut(cs[0].d["args"][0]) == tm and all(a == V("param:" + n) for a, n in zip([unmut(x) for x in cs[0].d["args"][1:]], fa.param_names[1:]))
                if name != "remove_tile":
                    pv_ = unmut(p.value)
                    if cs and cs[0].d["fn"] in lazy_list and is_call_to(pv_, lambda s_: s_.endswith("Iterator::collect")) and pv_[2]:
                        pv_ = unmut(pv_[2][0])      # the store hands out the keys iterator, the wrapper collects it unchanged
                    ok = ok and pv_ == unmut(cs[0].d["ret"]) if cs else False
            obs.append(Ob("R-LISTING", f["path"], "public wrapper forwards to the store with its own arguments", ok, "paths: %d" % len(fa.paths), rel(f["loc"])))
    return obs


def r_add_offset(ctx):
    """R-ADD-OFFSET (C04/C19/C03): registering a reader-backed tile stores exactly (id ↦ OffsetLength(offset, length)) and refuses length 0"""
    obs = []
    adt, roles = store_adt(ctx)
    if adt is None:
        return no_anchor("R-ADD-OFFSET", "tile store")
    fs = [f for f in ctx.user_fns() if "TileManager" in (f.get("self_ty") or "") and any(c["fn"] == "tile_manager::TileManagerTile::OffsetLength" for c in calls(f["body"]))]
    if not fs:
        return no_anchor("R-ADD-OFFSET", "registration function (builds TileManagerTile::OffsetLength)")
    for f in fs:
        fa = ctx.fa(f)
        fn = f["path"]
        # the registration's parameters by type and order: (tile_id: u64, offset: u64, length: u32)
        P = {"tile_id": role_param(fa, f, "u64", 0), "offset": role_param(fa, f, "u64", 1), "length": role_param(fa, f, "u32")}
        errs = [p for p in fa.paths if p.exit == "err"]
        for p in fa.paths:
            if p.exit not in ("ok", "tail"):
                continue
            ins = [e for e in p.events if e.kind == "call" and e.d["fn"] == HM + "insert"]
            ok = len(ins) == 1 and unmut(ins[0].d["args"][0]) == self_field(roles["tiles"]) and unmut(ins[0].d["args"][1]) == P.get("tile_id")
            val = unmut(ins[0].d["args"][2]) if ins else None
            ok = ok and is_call_to(val, lambda s: s == "tile_manager::TileManagerTile::OffsetLength") and list(val[2]) == [P.get("offset"), P.get("length")]
            obs.append(Ob("R-ADD-OFFSET", fn, "stores id ↦ OffsetLength(offset, length) in the id map, nothing else", ok and len(mutations(p, roles)) == 1, "insert value %s" % tstr(val)[:80], rel(f["loc"])))
            g = knows(p, ("ne", P.get("length"), 0), ins[0].seq if ins else None) is not None
            obs.append(Ob("R-ADD-OFFSET", fn, "length 0 refuted before the insert", g, "guard found: %s" % g, rel(f["loc"])))
        obs.append(Ob("R-ADD-OFFSET", fn, "length 0 ⇒ Err without mutation", bool(errs) and all(not mutations(p, roles) for p in errs), "error exits: %d" % len(errs), rel(f["loc"])))
        for p in errs:
            if isinstance(p.value, tuple) and p.value and p.value[0] == "errprop":
                continue
            d = rejects_because(p, None, lambda fct: fct[0] == "eq" and fct[2] == 0 and unmut(fct[1]) == P.get("length"))
            ex = [e for e in p.events if e.kind == "exit"]
            obs.append(Ob("R-ADD-OFFSET", fn, "a registration is refused only for length 0", d is not None,
                          "refusal justified by `length == 0`" if d is not None else "an error exit that `length == 0` does not account for", ex[-1].loc() if ex else rel(f["loc"]), only=("C01", "C03", "C04")))
    return obs


def _set_of(t):
    """the id-set object a term denotes, through entry-API accessors"""
    t = unmut(t)
    while is_call_to(t, lambda s: s.endswith(("::get_mut", "::get", "::into_mut", "::or_default", "::as_mut", "::as_ref"))) and t[2]:
        t = unmut(t[2][0])
    return t


def _emptiness_known(p, setrm_ev, drop_ev):
    """after the id was removed from the set, and before the drop, the set was found empty (in any spelling, through any accessor of the same entry)"""
    target = _set_of(setrm_ev.d["args"][0])
    for fct, d in path_facts(p, drop_ev.seq, after=setrm_ev.seq):
        if fct[0] == "empty" and fct[2] is True and _set_of(fct[1]) == target:
            return True
    return False
