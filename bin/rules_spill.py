"""Leaf-directory spill (C06, C02, C18): R-BUDGET, R-LEAFPTR, R-RESEEK, termination side condition."""
from rulebase import *
import absint
from rules_writer import no_anchor, struct_field
from rules_reader import unmut, is_call_to
from rules_dir import SPEC, ENTRY

BUDGET = SPEC["root_budget"]["max_root_directory_bytes"]
from absint import is_streamlike_ty as absint_is_streamlike


_DW = set()
CHUNKS = ("::chunks", "::chunks_then_tail")     # the second: chunks_exact(n) chained with its remainder (absint): the same leaves, then possibly one empty slice


def dir_write_fn(fn):
    return fn in _DW


def spill_fns(ctx):
    """the root-directory writers (see rulebase.spill_role_fns)"""
    _DW.clear()
    _DW.update(dir_writer_fns(ctx.facts))
    return spill_role_fns(ctx.facts)


def norm_bound(cond, outcome):
    """normalise `len ⋈ K` + branch outcome to (len_affine, B) meaning `len ≤ B` holds on this branch; None if not of that form"""
    c = unmut(cond)
    neg = False
    while isinstance(c, tuple) and c[0] == "un" and c[1] == "!":
        c = c[2]
        neg = not neg
    if not (isinstance(c, tuple) and c[0] == "bin" and c[1] in ("<", "<=", ">", ">=")):
        return None
    op = c[1]
    l, r = affine(c[2]), affine(c[3])
    truth = (outcome is True) != neg
    # bring to the form  len OP K  with K constant
    if not r[1] and l[1]:
        length, K = l, r[0]
    elif not l[1] and r[1]:
        length, K = r, l[0]
        op = {"<": ">", "<=": ">=", ">": "<", ">=": "<="}[op]
    else:
        return None
    if absint.narrowing_casts(c[2]) or absint.narrowing_casts(c[3]):
        return None    # the measured length was narrowed before the comparison: the test bounds `len mod 2^k`, not `len`
    if length[0] != 0:
        K -= length[0]
        length = (0, length[1])
    if truth:
        if op == "<=":
            return (length, K)
        if op == "<":
            return (length, K - 1)
        return None
    else:
        if op == ">":
            return (length, K)
        if op == ">=":
            return (length, K - 1)
        return None


def stream_param(fa, p):
    """the seekable stream parameter the root directory is written to: the one Directory::to_*writer receives last"""
    S = None
    for e in p.events:
        if e.kind == "call" and dir_write_fn(e.d["fn"]) and len(e.d["arg_nodes"]) > 1:
            rv = fa.root_var(e.d["arg_nodes"][1])
            if rv is not None and fa.var_names.get(rv) in fa.param_names:
                S = rv
    return S


def r_budget(ctx):
    obs = []
    fs = spill_fns(ctx)
    if not fs:
        return no_anchor("R-BUDGET", "root directory writer (function writing a Directory to a seekable stream and returning leaf bytes)")
    hb = ctx.facts.const_int("header::HEADER_BYTES")
    # the budget constant, wherever it lives and whatever it is called: every integer constant the root writers compare a length against is
    # re-checked at its use (the guard obligations below); this line only records the named constant when it is where it is today
    mx = ctx.facts.const_int("util::write_directories::MAX_ROOT_DIR_LENGTH")
    if mx is not None:
        obs.append(Ob("R-BUDGET", "<const>", "root budget constant = 16384 − 127", mx == BUDGET and hb == 127,
                      "MAX_ROOT_DIR_LENGTH evaluates to %s, HEADER_BYTES to %s (spec: %d, 127)" % (mx, hb, BUDGET)))
    else:
        obs.append(Ob("R-BUDGET", "<const>", "header size constant = 127", hb == 127, "HEADER_BYTES evaluates to %s" % hb))
    names = set(f["path"] for f in fs)
    for f in fs:
        fn = f["path"]
        fa = ctx.fa(f)
        oks = [p for p in fa.paths if p.exit in ("ok", "tail")]
        if not oks:
            obs.append(Ob("R-BUDGET", fn, "paths", False, "no success path", rel(f["loc"])))
        direct_seen = False
        for p in oks:
            S = stream_param(fa, p)
            if S is None:
                obs.append(Ob("R-BUDGET", fn, "model", False, "cannot identify the output stream on a success path", rel(f["loc"])))
                continue
            # a spill attempt: the root is written inside the retry loop, or (a rotated loop whose first attempt precedes it) the path chunks the entries
            in_loop = any(e.kind == "call" and dir_write_fn(e.d["fn"]) and e.loops and fa.root_var(e.d["arg_nodes"][1]) == S for e in p.events) or \
                any(e.kind == "call" and e.d["fn"].endswith(CHUNKS) for e in p.events)
            if p.exit == "tail":
                # delegates to another budget-checked root writer, handing it the remembered absolute start
                v = unmut(p.value)
                ok = is_call_to(v, lambda s: s in names and s != fn)
                start_ok = False
                if ok:
                    first_pos = [e for e in p.events if e.kind == "call" and any(k == "pos" for k, ks in e.d["effects"] if S in ks)]
                    want = ("call", "std::io::SeekFrom::Start", (unmut(first_pos[0].d["ret"]),), None) if first_pos else None
                    start_ok = any(a[0] == "call" and a[1] == "std::io::SeekFrom::Start" and want and a[2] == want[2] for a in v[2] if isinstance(a, tuple) and a)
                    comp_ok = role_param(fa, f, "compression") in v[2] and role_param(fa, f, "entries") in v[2]
                else:
                    comp_ok = False
                obs.append(Ob("R-BUDGET", fn, "overflow path delegates to a budget-checked strategy with the remembered start", ok and start_ok and comp_ok,
                              "tail value = %s" % tstr(v)[:160], rel(f["loc"])))
                # the overflow path is only taken when the root did NOT fit
                continue
            # an Ok(..) exit: dominated by `len ≤ B`
            writes = [e for e in p.events if e.kind == "call" and any(k in ("write", "unknown", "flush", "close") for k, ks in e.d["effects"] if S in ks)]
            if not writes:
                obs.append(Ob("R-BUDGET", fn, "root write", False, "success path without a write to the output stream", rel(f["loc"])))
                continue
            last = writes[-1]
            delta = aff_sub(affine(last.d["pos_after"][S]), affine(last.d["pos_before"][S]))
            found = None
            for d in p.decisions():
                if d.seq < last.seq or d.d["how"] != "if":
                    continue
                nb = norm_bound(d.d["cond"], d.d["outcome"])
                if nb is not None and aff_eq(nb[0], delta):
                    found = (d, nb[1])
            exact = not in_loop
            if exact:
                direct_seen = True
            if found is None:
                obs.append(Ob("R-BUDGET", fn, "%s: Ok exit guarded by root length ≤ %d" % ("single root" if exact else "spill", BUDGET), False,
                              "no decision `len ≤ K` on the measured root length (%s) precedes the Ok exit" % aff_str(delta), last.loc()))
            else:
                d, B = found
                ok = (B == BUDGET) if exact else (0 <= B <= BUDGET)
                obs.append(Ob("R-BUDGET", fn, "%s: Ok exit guarded by root length ≤ %d" % ("single root" if exact else "spill", BUDGET), ok,
                              "guard admits root length ≤ %d where root length = %s" % (B, aff_str(delta)), d.loc(), {"bound": B}))
            # R-RESEEK: on return the stream sits right after the root that was tested
            fin = affine(p.env_pos[S]) if hasattr(p, "env_pos") else None
            v = unmut(p.value)
            if exact:
                inner = v[2][0] if is_call_to(v, lambda s: s == "core::result::Result::Ok") and v[2] else None
                ok_empty = is_call_to(inner, lambda s: s == "alloc::vec::Vec::<T>::new") and not any(
                    e.kind == "call" and any(unmut(a) == inner for a in e.d["args"]) and e.d["fn"] not in ("core::result::Result::Ok",) for e in p.events)
                obs.append(Ob("R-BUDGET", fn, "single root: leaf section is empty", ok_empty, "returns %s" % tstr(v)[:100], last.loc()))
        if fa is not None and not any(e.kind == "loop" for p in fa.paths for e in p.events) and not direct_seen:
            obs.append(Ob("R-BUDGET", fn, "single-root exit", False, "no Ok exit for the fitting case", rel(f["loc"])))
    return obs


def r_reseek(ctx):
    """R-RESEEK: every root attempt starts at the remembered start of the root directory; on return the stream is at start + len(root)"""
    obs = []
    fs = spill_fns(ctx)
    if not fs:
        return no_anchor("R-RESEEK", "root directory writer")
    for f in fs:
        fn = f["path"]
        fa = ctx.fa(f)
        for p in fa.paths:
            if p.exit != "ok":
                continue
            S = stream_param(fa, p)
            if S is None:
                continue
            effs = [e for e in p.events if e.kind == "call" and any(S in ks for k, ks in e.d["effects"])]
            writes = [e for e in effs if any(k in ("write", "unknown") for k, ks in e.d["effects"] if S in ks)]
            if not writes:
                continue
            last = writes[-1]
            start = affine(last.d["pos_before"][S])
            # the position the root attempt starts from must be an *observed absolute* position: the result of stream_position()
            # at entry, or of seek(<the start the caller remembered>)
            prior = [e for e in effs if e.seq < last.seq]
            anchor = prior[-1] if prior else None
            ok_anchor = False
            why = "no position observation before the root write"
            if anchor is not None:
                kinds = set(k for k, ks in anchor.d["effects"] if S in ks)
                if kinds == {"pos"} and not [e for e in prior[:-1] if any(k in ("write", "seek", "unknown") for k, ks in e.d["effects"] if S in ks)]:
                    ok_anchor = True
                    why = "root written at the position observed at entry"
                elif "seek" in kinds:
                    tgt = unmut(anchor.d["args"][1]) if len(anchor.d["args"]) > 1 else None
                    ok_anchor = tgt is not None and tgt[0] == "v" and tgt[1].startswith("param:") and anchor.loops == last.loops
                    if not ok_anchor and is_call_to(tgt, lambda s: s.endswith("SeekFrom::Start")) and tgt[2]:
                        # … or an absolute seek to a position this function itself observed on the stream before anything moved it
                        seen = [e for e in prior if set(k for k, ks in e.d["effects"] if S in ks) == {"pos"} and unmut(e.d["ret"]) == unmut(tgt[2][0])]
                        moved_before = [e for e in prior if seen and e.seq < seen[0].seq and any(k in ("write", "seek", "unknown") for k, ks in e.d["effects"] if S in ks)]
                        ok_anchor = bool(seen) and not moved_before and anchor.loops == last.loops
                    why = "root attempt preceded by seek(%s) in the same iteration" % tstr(tgt)[:60]
            obs.append(Ob("R-RESEEK", fn, "root attempt starts at the remembered root start", ok_anchor, why, last.loc()))
            after = [e for e in effs if e.seq > last.seq and any(k in ("write", "seek", "unknown", "flush", "close") for k, ks in e.d["effects"] if S in ks)]
            obs.append(Ob("R-RESEEK", fn, "nothing moves the stream after the accepted root", not after,
                          "effects after the accepted root write: %s" % (", ".join(e.d["fn"].split("::")[-1] for e in after) or "none"), last.loc()))
    return obs


def r_leafptr(ctx):
    obs = []
    fs = [f for f in spill_fns(ctx) if any(e.kind == "call" and e.d["fn"].endswith(CHUNKS) for p in ctx.fa(f).paths for e in p.events)]
    if not fs:
        return no_anchor("R-LEAFPTR", "leaf-pointer strategy (root writer that chunks the entries)")
    for f in fs:
        fn = f["path"]
        fa = ctx.fa(f)
        n = 0
        grow_ok = None
        for p in fa.paths:
            if p.exit != "ok":
                continue
            S = stream_param(fa, p)
            pushes = [e for e in p.events if e.kind == "call" and e.d["fn"].endswith("Vec::<T, A>::push") and len(e.d["args"]) == 2 and unmut(e.d["args"][1])[0] == "struct" and unmut(e.d["args"][1])[1] == ENTRY]
            for pu in pushes:
                n += 1
                ent = unmut(pu.d["args"][1])
                lid = pu.loops[-1] if pu.loops else None
                # the leaf write of this chunk iteration
                lw = [e for e in p.events if e.kind == "call" and dir_write_fn(e.d["fn"]) and e.loops == pu.loops and e.seq < pu.seq]
                if len(lw) != 1:
                    obs.append(Ob("R-LEAFPTR", fn, "one leaf write per chunk", False, "found %d leaf writes in the chunk loop" % len(lw), pu.loc()))
                    continue
                lw = lw[0]
                L = fa.root_var(lw.d["arg_nodes"][1])
                chunk = None
                dterm = unmut(lw.d["args"][0])
                for t in subterms(dterm):
                    if t[0] == "elem" and is_call_to(t[1], lambda s: s.endswith(CHUNKS)):
                        chunk = t
                ok_chunk = chunk is not None and chunk[1][2][0] == role_param(fa, f, "entries")
                obs.append(Ob("R-LEAFPTR", fn, "leaf = directory of the current chunk of all entries, same compression", ok_chunk and unmut(lw.d["args"][2]) == role_param(fa, f, "compression"),
                              "leaf directory = %s" % tstr(dterm)[:120], lw.loc()))
                tid = struct_field(ent, "tile_id")
                ok_tid = chunk is not None and tid == ("f", ("idx", chunk, C(0)), "tile_id")
                obs.append(Ob("R-LEAFPTR", fn, "pointer.tile_id = first tile id of the chunk", ok_tid, "tile_id = %s" % tstr(tid)[:100], pu.loc()))
                off = affine(struct_field(ent, "offset"))
                want_off = affine(lw.d["pos_before"][L]) if L in lw.d["pos_before"] else None
                obs.append(Ob("R-LEAFPTR", fn, "pointer.offset = leaf cursor position before the leaf write", want_off is not None and aff_eq(off, want_off),
                              "offset = %s; cursor before the write = %s" % (aff_str(off), aff_str(want_off) if want_off else "?"), pu.loc()))
                ln = affine(struct_field(ent, "length"))
                want_len = aff_sub(affine(lw.d["pos_after"][L]), affine(lw.d["pos_before"][L])) if L in lw.d["pos_after"] else None
                obs.append(Ob("R-LEAFPTR", fn, "pointer.length = bytes written for the leaf", want_len is not None and aff_eq(ln, want_len) and bool(want_len[1]),
                              "length = %s; written = %s" % (aff_str(ln), aff_str(want_len) if want_len else "?"), pu.loc()))
                obs.append(Ob("R-LEAFPTR", fn, "pointer.run_length = 0", struct_field(ent, "run_length") == C(0), "run_length = %s" % tstr(struct_field(ent, "run_length")), pu.loc()))
                # the vector the pointers go to is the root directory written afterwards in the same attempt; the cursor's buffer is what is returned
                roots = [e for e in p.events if e.kind == "call" and dir_write_fn(e.d["fn"]) and e.seq > pu.seq and fa.root_var(e.d["arg_nodes"][1]) == S]
                vec_t = unmut(pu.d["args"][0])
                all_roots = [e for e in p.events if e.kind == "call" and dir_write_fn(e.d["fn"]) and fa.root_var(e.d["arg_nodes"][1]) == S]
                rt_last = unmut(all_roots[-1].d["args"][0]) if all_roots else None
                if rt_last is not None and not (rt_last[0] == "v" and rt_last in fa.havoc_src) and roots and all_roots[-1] is not roots[0] and \
                        not any(_same_alloc(t, _alloc_of(vec_t)) for t in subterms(rt_last)):
                    continue      # a pointer of an earlier, rejected attempt on this path: what is finally written and returned belongs to the last one
                rt = unmut(roots[0].d["args"][0]) if roots else None
                ok_root = bool(roots) and any(_same_alloc(t, _alloc_of(vec_t)) for t in subterms(rt))
                if roots and not ok_root and isinstance(rt, tuple) and rt and rt[0] == "v" and rt in fa.havoc_src:
                    # the root handed over is a loop-carried variable: one of the values it is given is the directory of these pointers
                    ok_root = any(_same_alloc(t, _alloc_of(vec_t)) for src in fa.havoc_src[rt] for t in subterms(unmut(src)))
                obs.append(Ob("R-LEAFPTR", fn, "root directory = the pointers collected in this attempt", ok_root, "root = %s" % (tstr(unmut(roots[0].d["args"][0]))[:100] if roots else "none"), pu.loc()))
                v = unmut(p.value)
                ret = v[2][0] if is_call_to(v, lambda s: s == "core::result::Result::Ok") and v[2] else None
                buf_ok = False
                if ret is not None:
                    # leaf cursor wraps the returned buffer
                    cur = fa_env_init(fa, p, L, pu.seq)
                    cur = unmut(cur) if cur is not None else None
                    buf_ok = cur is not None and any(_same_alloc(t, ret) for t in subterms(cur))
                    if not buf_ok and cur is not None and is_call_to(ret, lambda s_: s_.endswith("Cursor::<T>::into_inner")) and ret[2]:
                        buf_ok = _same_alloc(_alloc_of(unmut(ret[2][0])), _alloc_of(cur))      # an owned cursor taken apart: `cursor.into_inner()`
                    if not buf_ok and isinstance(ret, tuple) and ret and ret[0] == "v" and ret in fa.havoc_src:
                        buf_ok = any(is_call_to(unmut(src), lambda s_: s_.endswith("Cursor::<T>::into_inner")) and _same_alloc(_alloc_of(unmut(unmut(src)[2][0])), _alloc_of(cur))
                                     for src in fa.havoc_src[ret])
                obs.append(Ob("R-LEAFPTR", fn, "returned leaf bytes = buffer behind the leaf cursor of the accepted attempt", buf_ok, "returns %s" % tstr(ret)[:80], pu.loc()))
        # every chunk becomes a leaf: an iteration of the chunk loop that ends without pushing a pointer is admissible only for an empty chunk
        for p in fa.paths:
            if p.exit == "err":
                continue
            for e in p.events:
                if not (e.kind == "loop" and e.d["what"] == "enter" and is_call_to(unmut(e.d.get("iter")) if e.d.get("iter") is not None else None, lambda s: s.endswith(CHUNKS))):
                    continue
                lid = e.d["lid"]
                ex = [x for x in p.events if x.kind == "loop" and x.d["what"] == "exit" and x.d["lid"] == lid and x.seq > e.seq]
                if not ex:
                    continue
                ex = ex[0]
                pushed = [x for x in p.events if x.kind == "call" and x.d["fn"].endswith("Vec::<T, A>::push") and e.seq < x.seq < ex.seq and x.loops and lid in x.loops]
                if pushed:
                    continue
                chunk = ("elem", unmut(e.d["iter"]), lid)
                emp = any(fct[0] == "empty" and fct[2] is True and unmut(fct[1]) == chunk for fct, d in path_facts(p, ex.seq, e.seq))
                obs.append(Ob("R-LEAFPTR", fn, "a chunk is passed over without a leaf only if it is empty", emp,
                              "chunk-loop iteration ends (%s) without a pointer; facts about the chunk: %s" % (ex.d.get("how"), "empty" if emp else "none"), ex.loc()))
        # termination side condition: leaf size strictly grows on the retry path
        grows = []
        for atom, srcs in fa.havoc_src.items():
            if atom[1].endswith(":leaf_size") or True:
                for s in srcs:
                    s = unmut(s)
                    if s[0] == "bin" and s[1] == "*" and s[2] == atom and s[3][0] == "c" and s[3][1] >= 2:
                        grows.append(atom)
                    if s[0] == "bin" and s[1] == "+" and s[2] == atom and s[3][0] == "c" and s[3][1] >= 1:
                        grows.append(atom)
        chunk_arg_grows = False
        for p in fa.paths:
            for e in p.events:
                if e.kind == "call" and e.d["fn"].endswith(CHUNKS) and len(e.d["args"]) == 2:
                    a_ = unmut(e.d["args"][1])
                    if a_ in grows:
                        chunk_arg_grows = True
                    # (a rotated loop chunks with the grown value itself: `leaf_size * 2` of the loop-carried size)
                    if a_[0] == "bin" and a_[2] in grows and a_[3][0] == "c" and ((a_[1] == "*" and a_[3][1] >= 2) or (a_[1] == "+" and a_[3][1] >= 1)):
                        chunk_arg_grows = True
        obs.append(Ob("R-LEAFPTR", fn, "retry grows the leaf size (termination)", chunk_arg_grows, "chunk size variables multiplied/incremented per retry: %s" % [g[1] for g in grows], rel(f["loc"])))
        if n == 0:
            obs.append(Ob("R-LEAFPTR", fn, "pointer construction", False, "no Entry pushed on a success path", rel(f["loc"])))
    return obs


def _alloc_of(t):
    """the allocation a (possibly mutated / loop-versioned) term denotes"""
    while isinstance(t, tuple) and t and t[0] == "mut":
        t = t[1]
    return t


def _same_alloc(a, b):
    return a == b and isinstance(a, tuple) and a[0] == "call" and a[3] is not None


def fa_env_init(fa, p, var, upto=None):
    """the term a variable was bound to by its `let` on this path (the latest binding before event `upto`, if given: a helper evaluated in place
    more than once binds its locals once per evaluation)"""
    found = None
    for e in p.events:
        if upto is not None and e.seq > upto:
            break
        if e.kind == "let" and e.d["pat"]["k"] == "Bind" and fa.canon(e.d["pat"]["var"]) == var:
            if upto is None:
                return e.d["value"]
            found = e.d["value"]
    return found


def r_leafptr_first_id(ctx):
    """the part of R-LEAFPTR a range-filtered open of a library-written archive relies on: a leaf pointer carries its leaf's FIRST tile id
    (the walker skips a leaf whose pointer id lies beyond the range end)"""
    return [o for o in r_leafptr(ctx) if o.fn.startswith("<") or "pointer.tile_id" in o.site or "pointer construction" in o.site]
