#!/usr/bin/env python3
"""Systematic mutation sweep (development tool, not a registered check): apply small syntactic mutation operators to every library
source line of /repo, and for each mutant record (a) does it compile, (b) does the pinned test suite still pass, (c) which checks fire.
Mutants that compile, pass the tests and are flagged by no check are printed for triage (equivalent mutant, out of every property's
scope, or a genuine miss of the checker).

usage: automut.py gen            -> /tmp/am/mutants.json
       automut.py run [N workers] [only-substring]
       automut.py report
Scratch trees and target dirs live under /tmp/am (remove when done)."""
import json
import os
import re
import shutil
import subprocess
import sys
import multiprocessing

VERIF = os.path.dirname(os.path.dirname(os.path.abspath(__file__)))
REPO = "/repo"
AM = "/tmp/am"

REL = [(" <= ", " < "), (" < ", " <= "), (" >= ", " > "), (" > ", " >= "), (" == ", " != "), (" != ", " == ")]
LOGIC = [(" && ", " || "), (" || ", " && ")]
ARITH = [(" + ", " - "), (" - ", " + "), (" * ", " + "), (" / ", " * "), (" += ", " -= "), (" -= ", " += "), (" *= ", " += "), (" << ", " >> ")]
WORDS = [("saturating_sub", "wrapping_sub"), ("saturating_add", "wrapping_add"), ("read_exact", "read"), ("write_all", "write"),
         (".min(", ".max("), (".max(", ".min("), ("continue;", "break;"), ("true", "false"), ("false", "true"),
         ("is_empty()", "is_empty() == false"), ("checked_add", "checked_sub"), ("checked_sub", "checked_add"),
         ("SeekFrom::Start", "SeekFrom::Current"), (".first()", ".last()"), (".last()", ".first()"), ("last_mut()", "first_mut()"),
         ("u64::MAX", "0"), ("unwrap_or(u64::MAX)", "unwrap_or(0)"), ("Ok(None)", "Ok(Some(Vec::new()))"), ("sort_by", "sort_unstable_by"),
         (".close()", ".flush()"), (".flush()", ".close()"), ("Included", "Excluded"), ("Excluded", "Included"),
         ("depth + 1", "depth"), ("run_length: 1", "run_length: 0"), ("run_length: 0", "run_length: 1"), ("+= 1", "+= 2"), (".take(", ".take(1 + "),
         ("HEADER_BYTES", "(HEADER_BYTES + 1)"), ("entries[0]", "entries[entries.len() - 1]"), ("chunks(", "chunks_exact("), (".rev()", ""),
         ("is_some()", "is_none()"), ("is_none()", "is_some()"), ("!", ""), ("Some(", "None.or(Some("), ("u64::from(", "1 + u64::from(")]
INT = re.compile(r"(?<![\w.\"#])(\d+)(?![\w.\"])")


def code_lines(path):
    """(lineno, text) of library code lines: stops at the test module, skips comments/attributes"""
    out = []
    for i, l in enumerate(open(path).read().split("\n")):
        st = l.strip()
        if st.startswith("#[cfg(test)]"):
            break
        if not st or st.startswith(("//", "#[", "#!", "use ", "pub use ", "mod ", "pub mod ")):
            continue
        out.append((i, l))
    return out


def in_string(line, pos):
    return line[:pos].count('"') % 2 == 1


def positions(line, needle):
    i = line.find(needle)
    while i >= 0:
        yield i
        i = line.find(needle, i + 1)


def gen():
    muts = []
    files = []
    for root, _, fs in os.walk(os.path.join(REPO, "src")):
        for f in fs:
            if f.endswith(".rs"):
                files.append(os.path.join(root, f))
    for path in sorted(files):
        relp = os.path.relpath(path, REPO)
        for ln, line in code_lines(path):
            code = line.split("//")[0] if "//" in line and not in_string(line, line.find("//")) else line
            is_tmpl = line.strip().startswith("[") and "]" in line and "cfg" in line   # duplicate_item substitution rows
            for ops, kind in ((REL, "rel"), (LOGIC, "logic"), (ARITH, "arith"), (WORDS, "word")):
                for a, b in ops:
                    for pos in positions(code, a):
                        if in_string(code, pos):
                            continue
                        if kind in ("rel", "arith") and ("impl " in code or "fn " in code or "->" in code or "dyn " in code or "where" in code or ": &" in code and "<" in a):
                            continue
                        if a == "!" and (pos + 1 >= len(code) or code[pos + 1] in "=[" or (pos > 0 and code[pos - 1].isalnum()) or code[pos + 1] == "("and pos > 0 and code[pos-1].isalpha()):
                            continue
                        if a == "!" and pos > 0 and (code[pos - 1].isalnum() or code[pos - 1] == "_"):
                            continue   # macro invocation
                        new = code[:pos] + b + code[pos + len(a):] + line[len(code):]
                        muts.append({"file": relp, "line": ln, "op": "%s: %s -> %s" % (kind, a.strip(), b.strip() or "∅"), "old": line, "new": new})
            if not is_tmpl and "const " not in code or "const " in code:
                for m in INT.finditer(code):
                    if in_string(code, m.start()):
                        continue
                    n = int(m.group(1))
                    for nv in sorted(set([n + 1, max(n - 1, 0)]) - {n}):
                        new = code[:m.start()] + str(nv) + code[m.end():] + line[len(code):]
                        muts.append({"file": relp, "line": ln, "op": "int: %d -> %d" % (n, nv), "old": line, "new": new})
            # statement deletion: a one-line expression statement
            st = code.strip()
            if st.endswith(";") and not st.startswith(("let ", "return", "use ", "const ", "pub ", "type ", "static ", "}", "break", "continue")) and "=" not in st.replace("==", "").replace("!=", "").replace("<=", "").replace(">=", "").replace("=>", ""):
                muts.append({"file": relp, "line": ln, "op": "del-stmt", "old": line, "new": ""})
            if st.endswith(";") and re.search(r"[-+*]= ", st):
                muts.append({"file": relp, "line": ln, "op": "del-stmt", "old": line, "new": ""})
    if os.environ.get("AUTOMUT_SET") == "2":
        muts = gen2(files)
    if os.environ.get("AUTOMUT_SET") == "3":
        muts = gen3()
    # dedupe
    seen = set()
    out = []
    for m in muts:
        k = (m["file"], m["line"], m["new"], m.get("new2"))
        if k in seen or m["new"] == m["old"]:
            continue
        seen.add(k)
        m["id"] = len(out)
        out.append(m)
    os.makedirs(AM, exist_ok=True)
    json.dump(out, open(os.path.join(AM, "mutants.json"), "w"), indent=0)
    print(__import__("collections").Counter(m["op"].split(":")[0] for m in out))
    print("generated %d mutants over %d files" % (len(out), len(files)))


def gen2(files):
    """second operator set: structural edits (guards forced on/off, negated conditions, swapped arguments / adjacent statements / adjacent
    struct-literal fields, swallowed `?`, narrowed casts)"""
    muts = []
    for path in sorted(files):
        relp = os.path.relpath(path, REPO)
        cl = code_lines(path)
        for idx, (ln, line) in enumerate(cl):
            code = line
            st = code.strip()
            ind = code[:len(code) - len(code.lstrip())]
            m = re.match(r"^(\s*)(\}? ?else )?if (?!let )(.+) \{$", code)
            if m and "let " not in m.group(3):
                pre = m.group(1) + (m.group(2) or "")
                c = m.group(3)
                muts.append({"file": relp, "line": ln, "op": "guard-off", "old": line, "new": "%sif false && (%s) {" % (pre, c)})
                muts.append({"file": relp, "line": ln, "op": "guard-on", "old": line, "new": "%sif true || (%s) {" % (pre, c)})
                muts.append({"file": relp, "line": ln, "op": "negate", "old": line, "new": "%sif !(%s) {" % (pre, c)})
            # `expr?;` statement -> swallowed
            if st.endswith("?;") and not st.startswith(("let ", "return")) and "=" not in st.split("(")[0]:
                muts.append({"file": relp, "line": ln, "op": "swallow-?", "old": line, "new": code[:code.rstrip().rfind("?;")] + ".ok();"})
            if re.search(r"\bas u64\b", code) and "fn " not in code:
                muts.append({"file": relp, "line": ln, "op": "narrow-cast", "old": line, "new": re.sub(r"\bas u64\b", "as u32 as u64", code, count=1)})
            if re.search(r"u64::from\(", code):
                muts.append({"file": relp, "line": ln, "op": "narrow-from", "old": line, "new": code.replace("u64::from(", "u64::from(1u8.min(1) - 1) + u64::from(", 1).replace("u64::from(1u8.min(1) - 1) + ", "", 0)})
            # swap two simple arguments of a call on one line
            for mm in re.finditer(r"\(([A-Za-z_][\w.&*]*), ([A-Za-z_][\w.&*]*)\)", code):
                a, b = mm.group(1), mm.group(2)
                if a != b and "fn " not in code and not in_string(code, mm.start()):
                    muts.append({"file": relp, "line": ln, "op": "swap-args", "old": line, "new": code[:mm.start()] + "(%s, %s)" % (b, a) + code[mm.end():]})
            # swap adjacent single-line statements of equal indentation
            if idx + 1 < len(cl) and cl[idx + 1][0] == ln + 1:
                nxt = cl[idx + 1][1]
                if st.endswith(";") and nxt.strip().endswith(";") and nxt[:len(nxt) - len(nxt.lstrip())] == ind and not st.startswith(("use ", "const ", "return", "break", "continue")) and \
                        not nxt.strip().startswith(("return", "break", "continue")) and st.count("(") == st.count(")") and nxt.count("(") == nxt.count(")") and st.count("{") == st.count("}") and nxt.count("{") == nxt.count("}"):
                    muts.append({"file": relp, "line": ln, "op": "swap-stmts", "old": line, "new": nxt, "line2": ln + 1, "old2": nxt, "new2": line})
                # swap the values of two adjacent `name: expr,` struct-literal fields
                m1 = re.match(r"^(\s*)(\w+): (.+),$", code)
                m2 = re.match(r"^(\s*)(\w+): (.+),$", nxt)
                if m1 and m2 and m1.group(1) == m2.group(1) and m1.group(3) != m2.group(3) and "pub " not in code and "fn " not in code:
                    muts.append({"file": relp, "line": ln, "op": "swap-fields", "old": line, "new": "%s%s: %s," % (m1.group(1), m1.group(2), m2.group(3)),
                                 "line2": ln + 1, "old2": nxt, "new2": "%s%s: %s," % (m2.group(1), m2.group(2), m1.group(3))})
    return [m for m in muts if m["op"] != "narrow-from"]


def gen3():
    """third operator set, type-directed (from the compiler's facts): every use of a local variable is replaced by every other local of the same
    type in the same function, every field access by every other field of the same struct with the same type"""
    sys.path.insert(0, os.path.join(VERIF, "bin"))
    import engine, hir
    facts = engine.build_facts(REPO, ["all"])["all"]
    src = {}
    muts = []

    def line_of(file, ln):
        if file not in src:
            src[file] = open(os.path.join(REPO, file)).read().split("\n")
        return src[file][ln - 1] if 0 < ln <= len(src[file]) else None

    def test_start(file):
        line_of(file, 1)
        for i, l in enumerate(src[file]):
            if l.strip().startswith("#[cfg(test)]"):
                return i + 1
        return 10 ** 9
    for fn in facts.user_fns():
        if fn["body"] is None:
            continue
        locals_by_ty = {}
        occ = []
        for n in hir.walk(fn["body"]):
            if n["k"] == "Local" and n.get("name") and n.get("ty") and n.get("loc"):
                locals_by_ty.setdefault(n["ty"], set()).add(n["name"])
                occ.append(n)
        for prm in fn["params"]:
            pat = prm.get("pat") or {}
            if pat.get("k") == "Bind" and pat.get("name"):
                locals_by_ty.setdefault(prm["ty"], set()).add(pat["name"])
        for n in occ:
            parts = n["loc"].rsplit(":", 2)
            if len(parts) != 3:
                continue
            file, ln, col = parts[0], int(parts[1]), int(parts[2])
            if ln >= test_start(file):
                continue
            line = line_of(file, ln)
            if line is None or line[col - 1:col - 1 + len(n["name"])] != n["name"]:
                continue
            for other in sorted(locals_by_ty.get(n["ty"], ()) - {n["name"]}):
                if other == "self" or n["name"] == "self":
                    continue
                new = line[:col - 1] + other + line[col - 1 + len(n["name"]):]
                muts.append({"file": file, "line": ln - 1, "op": "var: %s -> %s (%s)" % (n["name"], other, n["ty"][:30]), "old": line, "new": new})
        for n in hir.walk(fn["body"]):
            if n["k"] == "Field" and n.get("name") and n.get("loc") and isinstance(n.get("e"), dict):
                bty = (n["e"].get("ty") or "").replace("&mut ", "").replace("&", "").strip()
                adt = facts.adts.get(bty.split("<")[0])
                if not adt or adt["kind"] != "struct":
                    continue
                fields = adt["variants"][0]["fields"]
                mine = [f for f in fields if f["name"] == n["name"]]
                if not mine:
                    continue
                parts = n["loc"].rsplit(":", 2)
                file, ln, col = parts[0], int(parts[1]), int(parts[2])
                if ln >= test_start(file):
                    continue
                line = line_of(file, ln)
                if line is None:
                    continue
                pos = line.find("." + n["name"], col - 1)
                if pos < 0:
                    continue
                for f2 in fields:
                    if f2["name"] != n["name"] and f2["ty"] == mine[0]["ty"]:
                        new = line[:pos + 1] + f2["name"] + line[pos + 1 + len(n["name"]):]
                        muts.append({"file": file, "line": ln - 1, "op": "field: .%s -> .%s" % (n["name"], f2["name"]), "old": line, "new": new})
    return muts


def worker(args):
    k, chunk = args
    env = dict(os.environ)
    env["PMLINT_CACHE"] = os.path.join(AM, "cache-%d" % k)
    env["CARGO_NET_OFFLINE"] = "true"
    res = []
    for m in chunk:
        rp = os.path.join(AM, "res", "%05d.json" % m["id"])
        if os.path.exists(rp):
            continue
        tree = os.path.join(AM, "tree-%d" % k)
        shutil.rmtree(tree, ignore_errors=True)
        os.makedirs(tree)
        for name in ("src", "Cargo.toml", "Cargo.lock", "test", "README.md"):
            s = os.path.join(REPO, name)
            if os.path.isdir(s):
                shutil.copytree(s, os.path.join(tree, name))
            elif os.path.exists(s):
                shutil.copy2(s, os.path.join(tree, name))
        p = os.path.join(tree, m["file"])
        lines = open(p).read().split("\n")
        assert lines[m["line"]] == m["old"], (m, lines[m["line"]])
        lines[m["line"]] = m["new"]
        if "line2" in m:
            assert lines[m["line2"]] == m["old2"]
            lines[m["line2"]] = m["new2"]
        open(p, "w").write("\n".join(lines))
        r = subprocess.run([sys.executable, os.path.join(VERIF, "bin", "automut.py"), "eval1", tree], env=env, stdout=subprocess.PIPE, stderr=subprocess.STDOUT, text=True)
        line = [l for l in r.stdout.splitlines() if l.startswith("{")]
        ev = json.loads(line[-1]) if line else {"error": r.stdout[-500:]}
        out = dict(m)
        out["check"] = ev
        if ev.get("compiles"):
            tenv = dict(env)
            tenv["CARGO_TARGET_DIR"] = os.path.join(AM, "ttarget-%d" % k)
            tenv["RUSTFLAGS"] = "-Awarnings"
            t = subprocess.run(["cargo", "test", "--offline", "--workspace", "--no-fail-fast", "-q"], cwd=tree, env=tenv, stdout=subprocess.PIPE, stderr=subprocess.STDOUT, text=True, timeout=1800)
            out["tests_pass"] = t.returncode == 0
            if t.returncode != 0:
                out["tests_tail"] = t.stdout[-300:]
        json.dump(out, open(rp, "w"))
    return k


def eval1(tree):
    sys.path.insert(0, os.path.join(VERIF, "bin"))
    import mutants, registry
    built = mutants.build(tree)
    facts, broken = built
    if not facts or "default" in broken:
        print(json.dumps({"compiles": False, "broken": {c: v[-300:] for c, v in broken.items()}}))
        return
    fired = {}
    for p in sorted(registry.PROPERTIES):
        bad, note = mutants.evaluate(p, tree, built=built)
        if bad:
            fired[p] = sorted(bad)
    print(json.dumps({"compiles": True, "broken_cfgs": sorted(broken), "fired": fired}))


def run(n, only=None):
    muts = json.load(open(os.path.join(AM, "mutants.json")))
    if only:
        muts = [m for m in muts if only in m["file"] or only in m["op"]]
    os.makedirs(os.path.join(AM, "res"), exist_ok=True)
    chunks = [(k, muts[k::n]) for k in range(n)]
    with multiprocessing.Pool(n) as pool:
        for k in pool.imap_unordered(worker, chunks):
            print("worker", k, "done", flush=True)


def report():
    rs = []
    d = os.path.join(AM, "res")
    for f in sorted(os.listdir(d)):
        rs.append(json.load(open(os.path.join(d, f))))
    comp = [r for r in rs if r["check"].get("compiles")]
    passing = [r for r in comp if r.get("tests_pass")]
    flagged = [r for r in passing if r["check"].get("fired")]
    surv = [r for r in passing if not r["check"].get("fired")]
    killed_by_tests = [r for r in comp if not r.get("tests_pass")]
    print("mutants %d; compile %d; tests still pass %d (tests kill %d); of the test-passing: flagged by a check %d, unflagged %d" % (len(rs), len(comp), len(passing), len(killed_by_tests), len(flagged), len(surv)))
    print("of the %d killed by tests, also flagged by a check: %d" % (len(killed_by_tests), len([r for r in killed_by_tests if r["check"].get("fired")])))
    for r in surv:
        print("SURVIVOR %5d %s:%d  [%s]\n      - %s\n      + %s" % (r["id"], r["file"], r["line"] + 1, r["op"], r["old"].strip(), r["new"].strip()) + ("\n      - %s\n      + %s" % (r["old2"].strip(), r["new2"].strip()) if "old2" in r else ""))
    json.dump({"total": len(rs), "compile": len(comp), "tests_pass": len(passing), "flagged": len(flagged), "survivors": [{k: r[k] for k in ("id", "file", "line", "op", "old", "new")} for r in surv]},
              open(os.path.join(AM, "report.json"), "w"), indent=1)


if __name__ == "__main__":
    cmd = sys.argv[1]
    if cmd == "gen":
        gen()
    elif cmd == "eval1":
        eval1(sys.argv[2])
    elif cmd == "run":
        run(int(sys.argv[2]) if len(sys.argv) > 2 else 12, sys.argv[3] if len(sys.argv) > 3 else None)
    elif cmd == "report":
        report()
