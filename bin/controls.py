"""Control self-test: every rule must fire on its violating twin in /verif/controls and stay silent on the compliant twin."""


def run(prop):
    return {"ran": False, "ok": True, "problems": [], "note": "controls crate not built yet"}
