"""Control self-test: the zero-count rules are run on /verif/controls on every check; each must report every `bad_<tag>_*`
function and stay silent on every `good_<tag>_*` function.  A failing control means the rule lost its grip: the check exits 2."""
import os
import sys

import engine
from rulebase import Ctx

TAGS = {"xfer": "R-XFER", "result": "R-RESULT-USED", "unwrap": "R-NO-UNWRAP", "codec": "R-REJ-UNKNOWN", "index": "R-TAINT-INDEX", "alloc": "R-TAINT-ALLOC"}
_cache = {}


def run(prop=None):
    if "res" in _cache:
        return _cache["res"]
    import rules_twin as rt
    res = {"ran": True, "ok": True, "problems": [], "fired": [], "silent": []}
    try:
        facts = engine.build_facts(os.path.join(engine.VERIF, "controls"), ["default"], target_tag="controls", crate_name="pmcontrols")["default"]
    except engine.EngineError as ex:
        res["ok"] = False
        res["problems"].append("controls crate does not build: %s" % str(ex)[-300:])
        return res
    ctx = Ctx(facts)
    obs = []
    for fn in (rt.r_xfer_rule, rt.r_result_used, rt.r_no_unwrap, rt.r_factory, rt.r_nopoll):
        try:
            obs += fn(ctx)
        except Exception as ex:
            res["ok"] = False
            res["problems"].append("%s crashed on the controls crate: %s" % (fn.__name__, ex))
    # the taint inventories (their count on /repo may legitimately drop to zero): parameter `n` of the index/alloc controls is the input-derived value
    import rules_taint as tt
    srcs = {f["path"]: ("n",) for f in facts.user_fns() if f["path"].rpartition("::")[2].split("_")[1:2] in (["index"], ["alloc"])}
    for fn in (tt.r_taint_index, tt.r_taint_alloc):
        try:
            obs += fn(ctx, srcs)
        except Exception as ex:
            res["ok"] = False
            res["problems"].append("%s crashed on the controls crate: %s" % (fn.__name__, ex))
    bad_by_fn = {}
    for o in obs:
        if not o.ok:
            bad_by_fn.setdefault(o.fn, set()).add(o.rule)
    for f in facts.user_fns():
        name = f["path"].rpartition("::")[2]
        parts = name.split("_")
        if len(parts) < 3 or parts[0] not in ("bad", "good") or parts[1] not in TAGS:
            continue
        rule = TAGS[parts[1]]
        fired = rule in bad_by_fn.get(f["path"], set())
        if parts[0] == "bad" and not fired:
            res["ok"] = False
            res["problems"].append("%s did not fire on %s" % (rule, name))
        elif parts[0] == "good" and fired:
            res["ok"] = False
            res["problems"].append("%s fired on the compliant control %s" % (rule, name))
        else:
            (res["fired"] if parts[0] == "bad" else res["silent"]).append("%s:%s" % (rule, name))
    # R-NOPOLL: the two hand-written stream impls must be reported
    np = [o for o in obs if o.rule == "R-NOPOLL" and not o.ok]
    if not np or "BadPollReader" not in np[0].msg or "BadSyncReader" not in np[0].msg:
        res["ok"] = False
        res["problems"].append("R-NOPOLL did not report the hand-written AsyncRead/Read impls of the controls crate")
    else:
        res["fired"].append("R-NOPOLL:BadPollReader+BadSyncReader")
    _cache["res"] = res
    return res


if __name__ == "__main__":
    import json
    print(json.dumps(run(), indent=1))
