#!/usr/bin/env python3
"""usage: seed_eval.py <patch.diff> [props...] — apply a patch to a scratch copy of /repo and report which rules fire per property"""
import os, shutil, sys, json
sys.path.insert(0, os.path.dirname(os.path.abspath(__file__)))
import mutants, registry
patch = os.path.abspath(sys.argv[1])
props = sys.argv[2:] or sorted(registry.PROPERTIES)
d = mutants.scratch_copy("/repo")
try:
    ok, out = mutants.apply_patch(d, patch)
    if not ok:
        print("patch does not apply:", out); sys.exit(3)
    res = {}
    built = mutants.build(d)
    for p in props:
        bad, note = mutants.evaluate(p, d, built=built)
        res[p] = sorted(bad) if bad is not None else "DOES NOT COMPILE: " + note
    fired = {p: r for p, r in res.items() if r}
    print(json.dumps(fired))
finally:
    shutil.rmtree(d, ignore_errors=True)
