"""Rules over the archive writer (the function that builds a Header and hands it to Header::to_writer*).

R-LAYOUT-W / R-REL / R-ABS / R-NO-WRITE-BEFORE-P (C18, C01, C02), R-SEEK-FIRST / R-HDR-LAST (C17), R-HDR-CONST (C02),
R-FIELDMAP-W and R-COUNTERS-W (C01, C02).  All of them are evaluated with the affine stream-position model of absint.py on
every success path of both twins.
"""
from rulebase import *
from absint import narrowing_casts as absint_narrowing

HEADER_ADT = "header::Header"
SECTION_FIELDS = [
    ("root", "root_directory_offset", "root_directory_length"),
    ("meta", "json_metadata_offset", "json_metadata_length"),
    ("leaf", "leaf_directories_offset", "leaf_directories_length"),
    ("data", "tile_data_offset", "tile_data_length"),
]

# archive field -> path inside Header (the v3 header carries each setting exactly once)
SETTINGS = {
    "tile_type": ("tile_type",), "tile_compression": ("tile_compression",), "internal_compression": ("internal_compression",),
    "min_zoom": ("min_zoom",), "max_zoom": ("max_zoom",), "center_zoom": ("center_zoom",),
    "min_longitude": ("min_pos", "longitude"), "min_latitude": ("min_pos", "latitude"),
    "max_longitude": ("max_pos", "longitude"), "max_latitude": ("max_pos", "latitude"),
    "center_longitude": ("center_pos", "longitude"), "center_latitude": ("center_pos", "latitude"),
}
COUNTERS = ("num_addressed_tiles", "num_tile_entries", "num_tile_content")


def struct_field(t, name):
    if isinstance(t, tuple) and t and t[0] == "struct":
        for n, v in t[2]:
            if n == name:
                return v
    return None


def is_hdr_write(e):
    return e.kind == "call" and e.d["fn"].startswith("header::Header::to_") and "writer" in e.d["fn"]


class WriterPath:
    """the stream-level story of one success path of an archive writer"""

    def __init__(self, ctx, fa, path):
        self.ok = False
        self.why = ""
        self.fa = fa
        self.path = path
        hdr = [e for e in path.events if is_hdr_write(e)]
        if len(hdr) != 1:
            self.why = "expected exactly one Header::to_writer* call on a success path, found %d" % len(hdr)
            return
        self.hdr = hdr[0]
        if len(self.hdr.d["arg_nodes"]) < 2:
            self.why = "Header::to_writer* call without a stream argument"
            return
        S = fa.root_var(self.hdr.d["arg_nodes"][1])
        if S is None:
            self.why = "stream argument of Header::to_writer* is not a local place"
            return
        self.S = S
        self.Sname = fa.var_names.get(S, S)
        self.P = V("pos0:" + self.Sname)
        self.header = self.hdr.d["args"][0]
        if not (isinstance(self.header, tuple) and self.header[0] == "struct" and self.header[1] == HEADER_ADT):
            self.why = "header handed to to_writer* is not a Header{..} literal visible on this path"
            return
        # ordered effects on S
        self.effects = []
        for e in path.events:
            if e.kind != "call":
                continue
            kinds = set(k for k, ks in e.d["effects"] if S in ks)
            if not kinds:
                continue
            before = affine(e.d["pos_before"].get(S, self.P))
            after = affine(e.d["pos_after"].get(S, self.P))
            self.effects.append((e, kinds, before, after))
        self.tag_sections(ctx)
        self.ok = True

    def tag_sections(self, ctx):
        S = self.S
        self.sections = {"root": [], "meta": [], "leaf": [], "data": []}
        factories = set(f["path"] for f in ctx.codec_factories())
        pre = [x for x in self.effects if x[0].seq < self.hdr.seq]
        writes = [x for x in pre if x[1] & {"write", "flush", "close", "unknown"}]
        # root: a local callee that writes to S and whose return value is later written verbatim to S (the leaf bytes)
        for (e, kinds, b, a) in writes:
            fn = e.d["fn"]
            if fn in ctx.facts.fns and "write" in kinds and e.d["ret"] is not None:
                ret = e.d["ret"]
                for (e2, k2, b2, a2) in writes:
                    if e2.seq > e.seq and e2.d["fn"] in WRITE_ALL and e2.d.get("direct") == S and len(e2.d["args"]) > 1 and e2.d["args"][1] == ret:
                        self.sections["root"].append((e, kinds, b, a))
                        self.sections["leaf"].append((e2, k2, b2, a2))
        for (e, kinds, b, a) in writes:
            d = e.d.get("direct")
            if d is not None and d != S:
                recv = e.d["args"][0] if e.d["args"] else None
                while isinstance(recv, tuple) and recv and recv[0] == "mut":
                    recv = recv[1]
                if isinstance(recv, tuple) and recv and recv[0] == "call" and recv[1] in factories:
                    self.sections["meta"].append((e, kinds, b, a))
        for (e, kinds, b, a) in writes:
            if e.d["fn"] in WRITE_ALL and e.d.get("direct") == S and len(e.d["args"]) > 1:
                buf = e.d["args"][1]
                if isinstance(buf, tuple) and buf[0] == "f" and buf[2] == "data" and isinstance(buf[1], tuple) and buf[1][0] == "call" and buf[1][1] in ctx.facts.fns:
                    self.sections["data"].append((e, kinds, b, a))
                    self.finish_result = buf[1]
        self.pre_writes = writes


WRITE_ALL = ("std::io::Write::write_all", "futures_util::io::AsyncWriteExt::write_all")


def writer_paths(ctx):
    out = []
    for f in ctx.archive_writers():
        try:
            fa = ctx.fa(f)
        except PathExplosion:
            out.append((f, None, None))
            continue
        oks = [p for p in fa.paths if p.exit in ("ok", "tail")]
        out.append((f, fa, oks))
    return out


def no_anchor(rule, what):
    return [Ob(rule, "<anchor>", what, False, "anchor not found: " + what)]


def r_layout_w(ctx):
    """R-LAYOUT-W + R-REL: the eight offset/length header fields equal the measured section positions relative to the
    starting position P, section by section; every one of them is P-free"""
    obs = []
    wp = writer_paths(ctx)
    if not wp:
        return no_anchor("R-LAYOUT-W", "archive writer (function building Header{..} and calling Header::to_writer*)")
    for f, fa, oks in wp:
        fn = f["path"]
        if fa is None or not oks:
            obs.append(Ob("R-LAYOUT-W", fn, "paths", False, "no analysable success path (path explosion or none)", rel(f["loc"])))
            continue
        for pi, p in enumerate(oks):
            w = WriterPath(ctx, fa, p)
            if not w.ok:
                obs.append(Ob("R-LAYOUT-W", fn, "model", False, w.why, rel(f["loc"])))
                continue
            loc = w.hdr.loc()
            for sec, off_f, len_f in SECTION_FIELDS:
                evs = w.sections[sec]
                off_t = struct_field(w.header, off_f)
                len_t = struct_field(w.header, len_f)
                if off_t is None or len_t is None:
                    obs.append(Ob("R-LAYOUT-W", fn, "%s: field" % sec, False, "Header literal lacks %s/%s" % (off_f, len_f), loc))
                    continue
                off_a = affine(off_t)
                len_a = affine(len_t)
                for nm, t_ in ((off_f, off_t), (len_f, len_t)):
                    nc = absint_narrowing(t_)
                    obs.append(Ob("R-LAYOUT-W", fn, "%s: not truncated" % nm, not nc, "header field %s passes through a narrowing cast (%s): positions beyond its width wrap" % (nm, ", ".join("as %s" % c[1] for c in nc)) if nc else "no narrowing cast on the way to the 64-bit field", loc))
                # R-REL
                for nm, a in ((off_f, off_a), (len_f, len_a)):
                    pfree = w.P not in a[1]
                    obs.append(Ob("R-REL", fn, nm, pfree,
                                  "header field %s = %s %s the start position %s" % (nm, aff_str(a), "is independent of" if pfree else "depends on", tstr(w.P)),
                                  loc, {"field": nm, "value": aff_str(a)}))
                if not evs:
                    obs.append(Ob("R-LAYOUT-W", fn, "%s: section write" % sec, False,
                                  "cannot find the %s section write on stream `%s` before the header write" % (sec, w.Sname), loc))
                    continue
                # contiguity of the section's events among the write effects
                idxs = [w.pre_writes.index(x) for x in evs]
                contiguous = idxs == list(range(min(idxs), min(idxs) + len(idxs)))
                start = aff_sub(evs[0][2], (0, {w.P: 1}))
                total = (0, {})
                for (e, k, b, a) in evs:
                    total = aff_add(total, aff_sub(a, b))
                ok_off = aff_eq(off_a, start)
                ok_len = aff_eq(len_a, total)
                obs.append(Ob("R-LAYOUT-W", fn, "%s: offset" % sec, ok_off and contiguous,
                              "%s = %s; the %s section is written starting at P + (%s)%s" % (off_f, aff_str(off_a), sec, aff_str(start), "" if contiguous else " [section writes not contiguous]"),
                              loc, {"field": off_f, "value": aff_str(off_a), "expected": aff_str(start)}))
                obs.append(Ob("R-LAYOUT-W", fn, "%s: length" % sec, ok_len,
                              "%s = %s; the %s section writes %s bytes" % (len_f, aff_str(len_a), sec, aff_str(total)),
                              loc, {"field": len_f, "value": aff_str(len_a), "expected": aff_str(total)}))
            # root directory directly after the 127-byte header
            hb = ctx.facts.const_int("header::HEADER_BYTES")
            ro = struct_field(w.header, "root_directory_offset")
            if ro is not None:
                a = affine(ro)
                obs.append(Ob("R-LAYOUT-W", fn, "root: directly after header", a == (hb, {}) and hb == 127,
                              "root_directory_offset = %s, HEADER_BYTES = %s (spec: 127)" % (aff_str(a), hb), loc))
            # no backwards seek between the section writes
            first = min((x[0].seq for s in w.sections.values() for x in s), default=None)
            if first is not None:
                bad = [e for (e, k, b, a) in w.effects if "seek" in k and first < e.seq < w.hdr.seq and not _is_hdr_seek(w, e)]
                obs.append(Ob("R-LAYOUT-W", fn, "no seek between section writes", not bad,
                              "seek effects on `%s` between the first section write and the header seek: %d" % (w.Sname, len(bad)), loc))
    return obs


def r_section_content(ctx):
    """R-SECTION-CONTENT: what each section write carries.  root = the directory writer called with the layout result's directory and the archive's
    internal compression; metadata = one write of serde_json(self.meta_data) through a compressor built from the archive's internal compression over
    the output stream, then finished; leaf = exactly the bytes the directory writer returned; data = the layout result's tile data."""
    obs = []
    wp = writer_paths(ctx)
    if not wp:
        return no_anchor("R-SECTION-CONTENT", "archive writer")
    factories = set(f["path"] for f in ctx.codec_factories())
    me = V("param:self")
    for f, fa, oks in wp:
        fn = f["path"]
        if fa is None or not oks:
            obs.append(Ob("R-SECTION-CONTENT", fn, "paths", False, "no analysable success path", rel(f["loc"])))
            continue
        for p in oks:
            w = WriterPath(ctx, fa, p)
            if not w.ok:
                obs.append(Ob("R-SECTION-CONTENT", fn, "model", False, w.why, rel(f["loc"])))
                continue
            loc = w.hdr.loc()
            fin = getattr(w, "finish_result", None)
            ok_fin = fin is not None and fin[0] == "call" and fin[2] and _strip(fin[2][0]) == ("f", me, "tile_manager")
            obs.append(Ob("R-SECTION-CONTENT", fn, "data: the tile data of this archive's layout pass", bool(w.sections["data"]) and ok_fin,
                          "data section writes %s" % (tstr(("f", fin, "data"))[:90] if fin is not None else "nothing recognisable"), w.sections["data"][0][0].loc() if w.sections["data"] else loc))
            # root
            for (e, kinds, b, a) in w.sections["root"][:1]:
                args = [_strip(x) for x in e.d["args"]]
                ok_dir = fin is not None and any(_base(x) == ("f", fin, "directory") for x in args)
                ok_comp = ("f", me, "internal_compression") in args
                obs.append(Ob("R-SECTION-CONTENT", fn, "root: directory writer gets the layout's entries and the archive's internal compression", ok_dir and ok_comp,
                              "arguments: %s" % ", ".join(tstr(x)[:50] for x in args), e.loc()))
            if not w.sections["root"]:
                obs.append(Ob("R-SECTION-CONTENT", fn, "root: directory writer call", False, "no directory-writer call whose result is written as the leaf section", loc))
            # metadata
            mw = [(e, k) for (e, k, b, a) in w.sections["meta"]]
            datas = [e for e, k in mw if e.d["fn"] in WRITE_ALL]
            ok_one = len(datas) == 1
            ok_json = ok_comp_m = False
            if ok_one:
                e = datas[0]
                buf = _strip(e.d["args"][1]) if len(e.d["args"]) > 1 else None
                ok_json = is_call(buf, lambda s: s.startswith("serde_json::ser::to_vec")) and buf[2] and _strip(buf[2][0]) == ("f", me, "meta_data")
                recv = _strip(e.d["args"][0])
                ok_comp_m = is_call(recv, lambda s: s in factories) and ("f", me, "internal_compression") in [_strip(x) for x in recv[2]] and V("param:" + w.Sname) in [_strip(x) for x in recv[2]]
            obs.append(Ob("R-SECTION-CONTENT", fn, "meta: exactly one write of serde_json(self.meta_data) through compress(self.internal_compression, output)", ok_one and ok_json and ok_comp_m,
                          "%d data write(s) through the metadata compressor%s" % (len(datas), "" if not ok_one else "; buffer %s; compressor %s" % ("ok" if ok_json else "NOT the serialised metadata", "ok" if ok_comp_m else "NOT compress(self.internal_compression, output)")),
                          datas[0].loc() if datas else loc))
            fins = [e for e, k in mw if k & {"flush", "close"} and (not datas or e.seq > datas[-1].seq)]
            obs.append(Ob("R-SECTION-CONTENT", fn, "meta: the compressor is finished after the write", bool(fins), "%d finishing call(s) after the data write" % len(fins), fins[0].loc() if fins else loc))
    return obs


def _strip(t):
    while isinstance(t, tuple) and t and t[0] in ("mut", "ref", "cast") and len(t) > 1:
        t = t[1] if t[0] != "cast" else t[2]
    return t


def _base(t):
    """strip slicing/borrowing views: `&x[0..]`, `x.as_slice()`"""
    t = _strip(t)
    while isinstance(t, tuple) and t:
        if t[0] == "idx":
            t = _strip(t[1])
        elif t[0] == "call" and t[1].endswith(("::as_slice", "::deref", "::as_ref", "::index")) and t[2]:
            t = _strip(t[2][0])
        else:
            break
    return t


def is_call(t, pred):
    return isinstance(t, tuple) and t and t[0] == "call" and pred(t[1])


def _is_hdr_seek(w, e):
    """the seek immediately preceding the header write"""
    prev = [x for x in w.effects if x[0].seq < w.hdr.seq and (x[1] - {"pos"})]
    return bool(prev) and prev[-1][0] is e


def r_abs(ctx):
    """R-ABS / R-NO-WRITE-BEFORE-P: absolute seeks carry the start position with coefficient 1; header lands at P; stream is left at
    the archive's end"""
    obs = []
    wp = writer_paths(ctx)
    if not wp:
        return no_anchor("R-ABS", "archive writer")
    for f, fa, oks in wp:
        fn = f["path"]
        if fa is None or not oks:
            obs.append(Ob("R-ABS", fn, "paths", False, "no analysable success path", rel(f["loc"])))
            continue
        for p in oks:
            w = WriterPath(ctx, fa, p)
            if not w.ok:
                obs.append(Ob("R-ABS", fn, "model", False, w.why, rel(f["loc"])))
                continue
            seeks = [(e, k, b, a) for (e, k, b, a) in w.effects if "seek" in k]
            n = 0
            for (e, k, b, a) in seeks:
                tgt = e.d["args"][1] if len(e.d["args"]) > 1 else None
                if isinstance(tgt, tuple) and tgt[0] == "call" and tgt[1] == "std::io::SeekFrom::Start":
                    n += 1
                    coef = a[1].get(w.P, 0)
                    obs.append(Ob("R-ABS", fn, "SeekFrom::Start #%d: P coefficient" % n, coef == 1,
                                  "absolute seek target = %s (coefficient of the start position %s is %d, must be 1)" % (aff_str(a), tstr(w.P), coef), e.loc(),
                                  {"target": aff_str(a)}))
                d = aff_sub(a, (0, {w.P: 1}))
                nonneg = d[0] >= 0 and all(v >= 0 for v in d[1].values())
                obs.append(Ob("R-NO-WRITE-BEFORE-P", fn, "seek #%d stays at or after P" % (seeks.index((e, k, b, a)) + 1), nonneg,
                              "seek target − P = %s" % aff_str(d), e.loc()))
            # header lands exactly at P
            hb = w.hdr.d["pos_before"].get(w.S)
            ha = affine(hb) if hb is not None else None
            obs.append(Ob("R-ABS", fn, "header written at P", ha is not None and aff_eq(ha, (0, {w.P: 1})),
                          "position of `%s` when the header is written = %s; archive start = %s" % (w.Sname, aff_str(ha) if ha else "?", tstr(w.P)), w.hdr.loc()))
            # final position = end of the last section
            post = [x for x in w.effects if x[0].seq > w.hdr.seq]
            ends = [x[3] for s in w.sections.values() for x in s]
            if ends and post:
                fin = post[-1][3]
                # the archive's end is the furthest position reached while writing sections (all atoms are non-negative lengths)
                best = max(ends, key=lambda a: (len(a[1]), a[0]))
                obs.append(Ob("R-ABS", fn, "stream left at archive end", aff_eq(fin, best) and "seek" in post[-1][1],
                              "final position of `%s` = %s; end of the last section = %s" % (w.Sname, aff_str(fin), aff_str(best)), post[-1][0].loc()))
            else:
                obs.append(Ob("R-ABS", fn, "stream left at archive end", False, "no seek to the archive end after the header write", w.hdr.loc()))
    return obs


def r_commit_order(ctx):
    """R-SEEK-FIRST / R-HDR-LAST (C17): the header region is skipped first and written last"""
    obs = []
    wp = writer_paths(ctx)
    if not wp:
        return no_anchor("R-HDR-LAST", "archive writer")
    for f, fa, oks in wp:
        fn = f["path"]
        if fa is None or not oks:
            obs.append(Ob("R-HDR-LAST", fn, "paths", False, "no analysable success path", rel(f["loc"])))
            continue
        for p in oks:
            w = WriterPath(ctx, fa, p)
            if not w.ok:
                obs.append(Ob("R-HDR-LAST", fn, "model", False, w.why, rel(f["loc"])))
                continue
            real = [x for x in w.effects if x[1] - {"pos"}]
            first = real[0] if real else None
            hb = ctx.facts.const_int("header::HEADER_BYTES")
            ok = first is not None and "seek" in first[1] and aff_eq(first[3], (hb or -1, {w.P: 1}))
            obs.append(Ob("R-SEEK-FIRST", fn, "first effect skips the header region", ok,
                          "first effect on `%s`: %s → position %s (must be a seek to P + %s)" % (w.Sname, short_fn(first[0]) if first else "none", aff_str(first[3]) if first else "?", hb),
                          first[0].loc() if first else rel(f["loc"])))
            after = [x for x in w.effects if x[0].seq > w.hdr.seq and (x[1] & {"write", "flush", "close", "unknown", "read"})]
            obs.append(Ob("R-HDR-LAST", fn, "no write effect after the header write", not after,
                          "write effects on `%s` after Header::to_writer*: %s" % (w.Sname, ", ".join(short_fn(x[0]) for x in after) or "none"), w.hdr.loc()))
            for sec, evs in w.sections.items():
                late = [x for x in evs if x[0].seq > w.hdr.seq]
                obs.append(Ob("R-HDR-LAST", fn, "%s section precedes the header write" % sec, bool(evs) and not late,
                              "%s section: %d write events, %d after the header write" % (sec, len(evs), len(late)), w.hdr.loc()))
        # every success path writes the header
        for p in oks:
            n = len([e for e in p.events if is_hdr_write(e)])
            if n != 1:
                obs.append(Ob("R-HDR-LAST", fn, "header written exactly once on every success path", False, "found %d header writes" % n, rel(f["loc"])))
    obs += _forwarded_stream(ctx, wp)
    return obs


def _forwarded_stream(ctx, wp):
    """the ordering established inside the archive writer is the ordering the caller's stream sees: every local caller hands its own
    stream parameter to the writer and has no other write effect on it (a staging buffer copied out afterwards puts the header first)"""
    obs = []
    work = []
    for f, fa, oks in wp:
        if fa is None or not oks:
            continue
        w = WriterPath(ctx, fa, oks[0])
        if not w.ok:
            continue
        idx = [i for i, n in enumerate(fa.param_names) if fa.params.get(n) == w.S]
        if idx:
            work.append((f["path"], idx[0]))
    seen = set()
    while work:
        callee, sidx = work.pop()
        if (callee, sidx) in seen:
            continue
        seen.add((callee, sidx))
        for g in ctx.user_fns():
            if g["path"] == callee or not any(c["fn"] == callee for c in calls(g["body"])):
                continue
            try:
                ga = ctx.fa(g)
            except PathExplosion:
                obs.append(Ob("R-HDR-LAST", g["path"], "caller of the archive writer", False, "path explosion", rel(g["loc"])))
                continue
            gn = g["path"]
            for p in ga.paths:
                cs = [e for e in p.events if e.kind == "call" and e.d["fn"] == callee and not e.d.get("inl")]
                for e in cs:
                    nodes = e.d.get("arg_nodes") or []
                    S = ga.root_var(nodes[sidx]) if sidx < len(nodes) else None
                    pn = [n for n in ga.param_names if ga.params.get(n) == S] if S is not None else []
                    obs.append(Ob("R-HDR-LAST", gn, "the caller's own stream is handed to the archive writer", bool(pn),
                                  "stream argument of %s is %s" % (callee.rpartition("::")[2], ("parameter `%s`" % pn[0]) if pn else "not a parameter of the caller (a staged copy reaches the caller's stream in a different order)"), e.loc(), only=("C17",)))
                    if not pn:
                        continue
                    # events evaluated in place inside the callee belong to the call itself (the callee is examined as a caller in its own right)
                    other = [x for x in p.events if x.kind == "call" and x is not e and not (e.d.get("inlined") and callee in (x.d.get("inl") or ()))
                             and any(S in ks and k != "pos" for k, ks in x.d.get("effects", ()))]
                    obs.append(Ob("R-HDR-LAST", gn, "no other effect on the stream around the archive writer", not other,
                                  "other effects on `%s`: %s" % (pn[0], ", ".join(short_fn(x) for x in other) or "none"), e.loc(), only=("C17",)))
                    work.append((gn, ga.param_names.index(pn[0])))
    return obs


def short_fn(e):
    return e.d["fn"].split("::")[-1] if e is not None else "?"


def r_hdr_const(ctx):
    obs = []
    wp = writer_paths(ctx)
    if not wp:
        return no_anchor("R-HDR-CONST", "archive writer")
    for f, fa, oks in wp:
        fn = f["path"]
        for p in (oks or []):
            w = WriterPath(ctx, fa, p)
            if not w.ok:
                obs.append(Ob("R-HDR-CONST", fn, "model", False, w.why, rel(f["loc"])))
                continue
            v = struct_field(w.header, "spec_version")
            obs.append(Ob("R-HDR-CONST", fn, "spec_version", v == C(3), "spec_version = %s (v3 requires 3)" % tstr(v), w.hdr.loc()))
    return obs


def r_fieldmap_w(ctx):
    """R-FIELDMAP (writer half) + counters: every header setting is taken from the archive field the spec pairs it with"""
    obs = []
    wp = writer_paths(ctx)
    if not wp:
        return no_anchor("R-FIELDMAP", "archive writer")
    for f, fa, oks in wp:
        fn = f["path"]
        for p in (oks or []):
            w = WriterPath(ctx, fa, p)
            if not w.ok:
                obs.append(Ob("R-FIELDMAP", fn, "model", False, w.why, rel(f["loc"])))
                continue
            selfv = V("param:self")
            for arch, hpath in SETTINGS.items():
                t = w.header
                for seg in hpath:
                    t = struct_field(t, seg) if t is not None else None
                want = ("f", selfv, arch)
                obs.append(Ob("R-FIELDMAP", fn, "write %s" % ".".join(hpath), t == want,
                              "Header.%s ← %s (expected self.%s)" % (".".join(hpath), tstr(t) if t else "missing", arch), w.hdr.loc()))
            fr = getattr(w, "finish_result", None)
            for c in COUNTERS:
                t = struct_field(w.header, c)
                want = ("f", fr, c) if fr is not None else None
                obs.append(Ob("R-COUNTERS", fn, "write %s" % c, want is not None and t == want,
                              "Header.%s ← %s (expected the layout result's %s)" % (c, tstr(t) if t else "missing", c), w.hdr.loc()))
    return obs
