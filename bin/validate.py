#!/usr/bin/env python3
"""validate MANIFEST.json and evidence files against the harness schemas (uses the tooling venv's jsonschema)"""
import json, sys, glob
import jsonschema
m = json.load(open('/verif/MANIFEST.json'))
jsonschema.validate(m, json.load(open('/root/.vp/MANIFEST.schema.json')))
print("MANIFEST ok: %d checks, %d n/a" % (len(m['checks']), len(m.get('not_applicable', []))))
s = json.load(open('/root/.vp/EVIDENCE.schema.json'))
for f in sorted(glob.glob('/verif/evidence/*.json')):
    jsonschema.validate(json.load(open(f)), s)
    print("evidence ok:", f)
ids = [json.loads(l)['id'] for l in open('/verif/properties.jsonl')]
claimed = [c['property_id'] for c in m['checks']]
na = [c['property_id'] for c in m.get('not_applicable', [])]
missing = [i for i in ids if i not in claimed and i not in na]
print("unaccounted properties:", missing)
