#!/usr/bin/env python3
"""Orchestrator: decide one property on /repo's current working tree by static analysis.

  check.py <Cxx> [--tier quick|thorough] [--replay FILE] [--repo DIR] [--no-controls]

exit 0  every obligation discharged (or exactly matches a committed known finding: one KNOWN-FINDING line each)
exit 1  at least one unlisted violation: `VIOLATION property=<id> replay=<path>` per violated site
exit 2  the machinery itself could not run (driver missing, /repo does not compile in any config, mutant self-test
        regression); no VIOLATION line is printed in that case
"""
import argparse
import hashlib
import json
import os
import sys
import time

sys.path.insert(0, os.path.dirname(os.path.abspath(__file__)))

import engine
from rulebase import Ctx, Ob
import registry

VERIF = engine.VERIF
EVID = os.path.join(VERIF, "evidence")
REPLAY = os.path.join(VERIF, "out", "replay")
KNOWN = os.path.join(VERIF, "known_findings.json")


def load_known():
    if not os.path.exists(KNOWN):
        return []
    with open(KNOWN) as f:
        return json.load(f)["findings"]


class KnownIndex:
    """Committed known findings of one property, matched by (rule, function, site).  The function is identified by its NAME (moving it to another
    module is not a new finding) or, when the committed key names the ROLE the function plays (`"role"`: the sync directory serialiser, the tile
    store's adder, its layout function), by that role as the rules themselves locate it on the tree under analysis (renaming the private function
    that holds the defect is not a new finding either).  Rule and site text must match exactly in every case."""

    def __init__(self, prop, facts_by_cfg):
        self.known = [k for k in load_known() if k["property"] == prop and k["status"] == "known"]
        self.by_name = {(k["rule"], k["key"]["fn"].rpartition("::")[2], k["key"]["site"]): k for k in self.known}
        self.by_role = {(k["rule"], k["key"]["role"], k["key"]["site"]): k for k in self.known if k["key"].get("role")}
        self.facts = facts_by_cfg
        self._roles = None

    def _role_sets(self):
        if self._roles is None:
            import rulebase, rules_dir, rules_store
            r = {"dir_encoder": set(), "store_adder": set(), "store_layout": set()}
            for facts in (self.facts or {}).values():
                ctx = rulebase.Ctx(facts)
                try:
                    r["dir_encoder"] |= set(f["path"] for f in rules_dir.dir_encoders(ctx))
                    adt, roles = rules_store.store_adt(ctx)
                    if roles:
                        r["store_adder"] |= set(f["path"] for f in rules_store.adders(ctx, roles))
                    r["store_layout"] |= set(f["path"] for f in rules_store.finishers(ctx))
                except Exception:
                    pass
            self._roles = r
        return self._roles

    def match(self, rule, fn, site):
        k = self.by_name.get((rule, str(fn).rpartition("::")[2], site))
        if k is not None:
            return k
        for (r_, role, s_), k in self.by_role.items():
            if r_ == rule and s_ == site and str(fn) in self._role_sets().get(role, ()):
                return k
        return None


def run_rules(prop, facts_by_cfg, notes):
    """returns (obligations, per_rule_counts, functions_analysed)"""
    spec = registry.PROPERTIES[prop]
    obs = []
    fns = set()
    for cfg, facts in facts_by_cfg.items():
        ctx = Ctx(facts)
        for rule_fn in spec["rules"]:
            try:
                got = rule_fn(ctx)
            except Exception as ex:  # a crashing rule is a failed obligation, never a silent pass
                import traceback
                got = [Ob(rule_fn.__name__, "<engine>", "rule crashed", False, "%s: %s" % (type(ex).__name__, ex))]
                notes.append("rule %s crashed on config %s:\n%s" % (rule_fn.__name__, cfg, traceback.format_exc()))
            for o in got:
                if o.only is not None and prop not in o.only:
                    continue      # a clause that is a necessary condition of other properties only
                o.cfg = cfg
                obs.append(o)
        fns |= set(ctx._fa.keys())
    return obs, fns


def check_floors(prop, obs, cfgs):
    """fail closed when a rule evaluated fewer instances than were confirmed by hand"""
    out = []
    floors = registry.PROPERTIES[prop].get("floors", {})
    for rule, per_cfg in floors.items():
        for cfg in cfgs:
            want = per_cfg.get(cfg)
            if want is None:
                continue
            have = len(set(o.key() for o in obs if o.rule == rule and o.cfg == cfg))
            if have < want:
                o = Ob(rule, "<floor>", "instances[%s]" % cfg, False,
                       "rule %s evaluated %d instances in config %s, floor is %d (an anchor disappeared or the rule lost its grip)" % (rule, have, cfg, want))
                o.cfg = cfg
                out.append(o)
    return out


def merge(obs):
    """one record per (rule, fn, site): violated if violated in any config / on any path"""
    by = {}
    for o in obs:
        k = o.key()
        if k not in by:
            by[k] = {"rule": o.rule, "fn": o.fn, "site": o.site, "ok": True, "configs": [], "why": o.msg, "loc": o.loc, "values": o.values, "n": 0}
        r = by[k]
        r["n"] += 1
        if o.cfg not in r["configs"]:
            r["configs"].append(o.cfg)
        if not o.ok and r["ok"]:
            r["ok"] = False
            r["why"] = o.msg
            r["loc"] = o.loc
            r["values"] = o.values
    return by


def main():
    ap = argparse.ArgumentParser()
    ap.add_argument("prop")
    ap.add_argument("--tier", default=os.environ.get("VERIF_TIER", "quick"))
    ap.add_argument("--replay")
    ap.add_argument("--repo", default="/repo")
    ap.add_argument("--no-controls", action="store_true")
    ap.add_argument("--no-mutants", action="store_true")
    ap.add_argument("--evidence-dir", default=EVID)
    a = ap.parse_args()
    prop = a.prop
    if prop not in registry.PROPERTIES:
        print("unknown or unclaimed property %s" % prop)
        return 2
    tier = "thorough" if a.tier == "thorough" else "quick"
    seed = int(os.environ.get("VERIF_SEED", "0") or 0)
    t0 = time.time()
    notes = []
    spec = registry.PROPERTIES[prop]
    cfgs = ["all", "default"] + (["serde", "async"] if tier == "thorough" else [])

    engine.REPO_DIR = a.repo
    facts = {}
    broken_cfgs = {}
    for c in cfgs:
        try:
            facts.update(engine.build_facts(a.repo, [c], target_tag="repo"))
        except engine.EngineError as ex:
            broken_cfgs[c] = str(ex)
    if "default" in broken_cfgs or not facts:
        print("ENGINE-ERROR: %s does not compile in its default configuration; nothing can be decided\n%s" % (a.repo, list(broken_cfgs.values())[0][-3000:]))
        return 2

    obs, fns = run_rules(prop, facts, notes)
    obs += check_floors(prop, obs, list(facts.keys()))
    for c, msg in broken_cfgs.items():
        notes.append("config %s does not compile; rules ran on %s only" % (c, ",".join(facts.keys())))
        if spec.get("needs_all_configs"):
            o = Ob("R-TWIN", "<crate>", "config %s compiles" % c, False,
                   "the crate does not compile with feature config `%s`, so the asynchronous API this property is about does not exist: %s" % (c, msg.strip().splitlines()[-1] if msg.strip() else ""))
            o.cfg = c
            obs.append(o)

    # controls: each rule must fire on its violating twin and stay silent on the compliant one
    controls = {"ran": False}
    if not a.no_controls:
        import controls as ctl
        controls = ctl.run(prop)
        if not controls["ok"]:
            print("ENGINE-ERROR: control self-test failed for %s: %s" % (prop, "; ".join(controls["problems"])))
            write_evidence(a, prop, tier, seed, t0, obs, fns, facts, controls, [], [], notes, None, engine_error=True)
            return 2

    merged = merge(obs)
    kidx = KnownIndex(prop, facts)
    violations = []
    matched = []
    for k, r in sorted(merged.items()):
        if r["ok"]:
            continue
        hit = kidx.match(k[0], k[1], k[2]) if isinstance(k, tuple) and len(k) == 3 else None
        if hit is not None:
            matched.append((r, hit))
        else:
            violations.append(r)

    mutants = None
    if tier == "thorough" and not a.no_mutants and not violations and not a.replay:
        # the checker's own two-way self-test (stored mutants must be caught, stored refactors must be silent) is meaningful only on a tree the
        # property holds on: with a violation present every patched copy would report it as well
        import mutants as mu
        mutants = mu.run(prop, a.repo)
        # the other half: behaviour-preserving refactors must not alarm
        import benign as be
        b = be.run([prop])
        mutants["benign"] = {"clean": len(b["clean"]), "skipped": b["skipped"], "false_alarms": b["false_alarms"]}
        for fa_ in b["false_alarms"]:
            mutants["regressions"].append("false alarm on benign refactor %s" % fa_["patch"])
        engine.REPO_DIR = a.repo

    if a.replay:
        with open(a.replay) as f:
            want = json.load(f)
        k = (want["rule"], want["fn"], want["site"])
        r = merged.get(k)
        if r is None:
            print("REPLAY: the site %s / %s / %s no longer exists on the current tree" % k)
            return 0
        print("REPLAY: %s %s at %s [%s]: %s" % ("still VIOLATED" if not r["ok"] else "now holds", r["rule"], r["fn"], r["site"], r["why"]))
        return 1 if not r["ok"] else 0

    for r, kf in matched:
        print("KNOWN-FINDING: property=%s %s at %s [%s]: %s" % (prop, r["rule"], r["fn"], r["site"], kf["what"]))
    os.makedirs(REPLAY, exist_ok=True)
    replay_paths = []
    for r in violations:
        h = hashlib.sha1(("%s|%s|%s" % (r["rule"], r["fn"], r["site"])).encode()).hexdigest()[:12]
        path = os.path.join(REPLAY, "%s-%s.json" % (prop, h))
        with open(path, "w") as f:
            json.dump({"property": prop, "rule": r["rule"], "fn": r["fn"], "site": r["site"], "loc": r["loc"], "why": r["why"],
                       "values": r["values"], "configs": r["configs"], "clause": registry.RULE_DOC.get(r["rule"], "")}, f, indent=1)
        replay_paths.append(path)
        print("%s  %s  %s  [%s]  %s" % (r["loc"] or "-", r["rule"], r["fn"], r["site"], r["why"]))
        print("VIOLATION property=%s replay=%s" % (prop, path))

    write_evidence(a, prop, tier, seed, t0, obs, fns, facts, controls, violations, matched, notes, mutants)
    if mutants is not None and mutants.get("regressions"):
        if _pristine(a.repo):
            print("ENGINE-ERROR: mutant self-test regression for %s: %s" % (prop, ", ".join(mutants["regressions"])))
            return 1 if violations else 2
        # the stored patches are diffs against the tree they were made on; on a tree that has moved on, a patch that still applies may mean something
        # else, so its outcome is reported (evidence file) but is no verdict about the checker
        print("NOTE: corpus self-test not conclusive on a tree that differs from its base %s: %s" % (_corpus_base()[:7], ", ".join(mutants["regressions"])))
    n_ok = sum(1 for r in merged.values() if r["ok"])
    print("%s %s: %d obligations at %d sites, %d discharged, %d known, %d violated; configs %s; %.1fs" % (
        prop, tier, len(obs), len(merged), n_ok, len(matched), len(violations), ",".join(facts.keys()), time.time() - t0))
    return 1 if violations else 0


def _corpus_base():
    try:
        return open(os.path.join(VERIF, "mutants", "BASE")).read().strip()
    except OSError:
        return ""


def _pristine(repo):
    """the tree under analysis is exactly the commit the mutant / refactor corpora were cut from"""
    import subprocess
    try:
        head = subprocess.run(["git", "-C", repo, "rev-parse", "HEAD"], stdout=subprocess.PIPE, stderr=subprocess.DEVNULL, text=True).stdout.strip()
        dirty = subprocess.run(["git", "-C", repo, "status", "--porcelain", "--", "src", "Cargo.toml", "Cargo.lock"], stdout=subprocess.PIPE, stderr=subprocess.DEVNULL, text=True).stdout.strip()
    except OSError:
        return False
    return bool(head) and head == _corpus_base() and not dirty


def write_evidence(a, prop, tier, seed, t0, obs, fns, facts, controls, violations, matched, notes, mutants, engine_error=False):
    spec = registry.PROPERTIES[prop]
    merged = merge(obs)
    by_rule = {}
    for o in obs:
        d = by_rule.setdefault(o.rule, {"evaluated": 0, "discharged": 0})
        d["evaluated"] += 1
        d["discharged"] += 1 if o.ok else 0
    samples = []
    seen_rules = {}
    for k, r in sorted(merged.items()):
        if seen_rules.get(r["rule"], 0) >= 4 and r["ok"]:
            continue
        seen_rules[r["rule"]] = seen_rules.get(r["rule"], 0) + 1
        samples.append({"rule": r["rule"], "fn": r["fn"], "site": r["site"], "loc": r["loc"], "verdict": "holds" if r["ok"] else "VIOLATED",
                        "configs": r["configs"], "why": r["why"][:600], "values": r["values"]})
    floors = {}
    for rule, per in spec.get("floors", {}).items():
        floors[rule] = {c: {"floor": per.get(c), "found": len(set(o.key() for o in obs if o.rule == rule and o.cfg == c))} for c in facts.keys() if per.get(c) is not None}
    ev = {
        "property_id": prop,
        "tier": tier,
        "seed": seed,
        "level": "other",
        "coverage": {
            "explanation": spec["explanation"],
            "decides": spec["decides"],
            "does_not_decide": spec["does_not_decide"],
            "obligations": len(obs),
            "discharged": sum(1 for o in obs if o.ok),
            "evaluations": len(obs),
            "distinct_nontrivial": len(merged),
            "rule": "one evaluation = one rule instance at one site on one feature config (path rules: the instance is evaluated on every structured path of the function and "
                    "is discharged only if it holds on all of them); distinct = distinct (rule, function, site) keys; every counted site is one where the rule had something to decide "
                    "(sites outside a rule's scope are not generated)",
            "samples": samples,
            "per_rule": by_rule,
            "floors": floors,
            "functions_analysed": sorted(fns),
            "configs": {c: {"features": f.features, "functions": len(f.user_fns()), "wall_s": round(getattr(f, "wall", 0.0), 2)} for c, f in facts.items()},
            "controls": controls,
            "known_findings_matched": [{"rule": r["rule"], "fn": r["fn"], "site": r["site"]} for r, _ in matched],
            "mutants": mutants,
            "notes": notes,
            "checker_cmd": "python3 bin/check.py %s --tier %s" % (prop, tier),
            "trusted_base": registry.TRUSTED_BASE,
            "exhaustive": True,
        },
        "assumptions": registry.TRUSTED_BASE + spec.get("assumptions", []),
        "wall_s": round(time.time() - t0, 2),
        "violations": len(violations),
    }
    if engine_error:
        ev["coverage"]["notes"] = notes + ["control self-test failed; verdict withheld"]
    os.makedirs(a.evidence_dir, exist_ok=True)
    with open(os.path.join(a.evidence_dir, "%s.json" % prop), "w") as f:
        json.dump(ev, f, indent=1, default=str)


if __name__ == "__main__":
    sys.exit(main())
