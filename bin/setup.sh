#!/bin/bash
# Build the verification framework from files on disk only (offline).
set -e
cd "$(dirname "$0")/.."
export CARGO_NET_OFFLINE=true
(cd pmlint && cargo build --release --offline 2>&1 | tail -2)
# warm the dependency caches of the analysed configurations (members always go through the driver again)
python3 bin/engine.py /repo >/dev/null
# build the controls crate once (its dependencies are cached; the crate itself goes through the driver on every check)
python3 bin/controls.py >/dev/null
echo "setup ok"
