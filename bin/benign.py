#!/usr/bin/env python3
"""Apply each behaviour-preserving refactor to a scratch copy and require that NO check raises an alarm."""
import os, shutil, sys, json
sys.path.insert(0, os.path.dirname(os.path.abspath(__file__)))
import mutants, registry, engine
BEN = os.path.join(engine.VERIF, "benign")
def run(props=None):
    res = {"ran": True, "false_alarms": [], "clean": [], "skipped": []}
    files = [os.path.join(BEN, f) for f in sorted(os.listdir(BEN)) if f.endswith(".patch")]
    for sub in ("agents", "agents2", "agents3", "agents4", "agents5", "agents6", "agents7", "agents8", "agents9", "agents10"):
        ag = os.path.join(BEN, sub)
        if os.path.isdir(ag):
            files += [os.path.join(ag, f) for f in sorted(os.listdir(ag)) if f.endswith(".patch")]
    for path in files:
        f = os.path.relpath(path, BEN)
        d = mutants.scratch_copy("/repo")
        try:
            ok, out = mutants.apply_patch(d, path)
            if not ok:
                res["skipped"].append(f); continue
            built = mutants.build(d)
            fired = {}
            for p in (props or sorted(registry.PROPERTIES)):
                bad, note = mutants.evaluate(p, d, built=built)
                if bad is None:
                    fired[p] = "does not compile"
                elif bad:
                    fired[p] = sorted(bad)
            if fired: res["false_alarms"].append({"patch": f, "fired": fired})
            else: res["clean"].append(f)
        finally:
            shutil.rmtree(d, ignore_errors=True)
    engine.REPO_DIR = "/repo"
    return res
if __name__ == "__main__":
    r = run(sys.argv[1:] or None)
    print(json.dumps(r, indent=1))
