"""Property -> rules table, floors, documentation strings (DESIGN §4)."""
import json
import os

import rules_writer as rw
import rules_reader as rr
import rules_dir as rd
import rules_spill as rs
import rules_store as st
import rules_hdr as rh
import rules_twin as rt
import rules_taint as tt
import rules_cfg as rc

TRUSTED_BASE = [
    "rustc's name resolution, type checking and constant evaluation (facts are read from the compiler's own HIR/typeck tables via the pmlint driver)",
    "the external effect model of absint.py (which std/futures/integer-encoding/serde_json calls read, write, seek or query a stream) — DESIGN §3.6",
    "library contracts: write_all/read_exact/varint codecs loop on short transfers, take(n) bounds reads, deku implements its attribute DSL, codecs/serde_json/hilbert_2d return errors instead of panicking",
    "the transcription of the PMTiles v3 specification in /verif/spec/v3.json",
]

RULE_DOC = {
    "R-REL": "every header offset/length is relative to the archive start (independent of the stream's starting position P)",
    "R-LAYOUT-W": "each section's header offset/length equals where and how much the writer actually wrote; root directly after the 127-byte header",
    "R-SECTION-CONTENT": "each section write carries what it should: layout directory + internal compression (root), serde_json(meta_data) once through compress(internal_compression, output) (metadata), the returned leaf bytes (leaf), the layout's tile data (data)",
    "R-ABS": "absolute seeks are P-based; the header lands at P; the stream is left at the archive's end",
    "R-NO-WRITE-BEFORE-P": "no seek goes below the starting position",
    "R-SEEK-FIRST": "the writer first skips the header region",
    "R-HDR-LAST": "the header is the last thing written, after every section",
    "R-HDR-CONST": "spec_version is 3",
    "R-FIELDMAP": "every header setting is paired with the archive field of the same meaning, in both directions",
    "R-COUNTERS": "counters are computed once per entry/content and reach the header name for name",
    "R-ADDR": "registered tile address = tile_data_offset + entry offset, with the same entry's length and id",
    "R-EXACT-TILE": "a lookup seeks to the stored offset and reads exactly the stored length, once",
    "R-META0": "metadata length 0 ⇒ empty object without reading; else seek/take/decompress/parse",
    "R-WALK": "the directory walk expands runs of the entry it stores, recurses with leaf base + entry offset, dispatches on run_length == 0",
    "R-FIND": "single-directory lookup finds the non-leaf entry whose run contains the id",
    "R-LAZY": "no tile-data reader is reachable from the opener",
    "R-BOUNDED-READ": "every read on the open path is the fixed header read or bounded by take(len) after seek(offset) for a header-declared section",
    "R-CODEC-ALWAYS": "no successful open/write bypasses the directory codec, where Compression::Unknown (and an absent root directory) is refused",
    "R-COLS": "directory columns are transferred in the spec's order with the spec's integer types, through one codec handle",
    "R-DELTA": "tile ids are delta coded against the previous id, starting from 0",
    "R-OFFRULE": "offset column: 0 ⇔ contiguous with the previous entry (index > 0), else offset + 1",
    "R-LEN0": "an entry length of 0 is refused before it is stored/emitted",
    "R-BUDGET": "a root directory is committed only after its measured length was compared against 16 257",
    "R-RESEEK": "every root attempt starts at the remembered root start and nothing moves the stream after the accepted root",
    "R-LEAFPTR": "leaf pointers carry first id, leaf offset, exact leaf length, run_length 0; the returned leaf bytes belong to the accepted attempt",
    "R-REJ-EMPTY": "empty content is refused before any mutation",
    "R-ADD-PAIR": "add = remove old binding, then exactly one consistent insert into each of the three maps",
    "R-REMOVE-GUARD": "bytes are dropped only when the last referring id went away",
    "R-LOOKUP": "lookup resolves exactly the requested id; unknown id ⇒ None",
    "R-HASHID": "content identity must not be decided by the 64-bit hash alone",
    "R-FINISH-PAIR": "layout appends each new content once, reads the offset before appending, reuses stored (offset,length) on a hit",
    "R-RLE-DEP": "a run is extended only for the adjacent id with the same offset, by exactly one",
    "R-ORDER": "hash-map iteration order never reaches the output: sorted ascending by tile id first",
    "R-CLUSTERED": "clustered=true is backed by the sorted single layout pass",
    "R-HASHFN": "the content hash is finish() of a hasher that was fed the whole value",
    "R-HASH-NOLEAK": "content hashes are only map keys",
    "R-CFG-JSONORDER": "serde_json key-ordered maps, fixed-key content hash",
    "R-HDR-LAYOUT": "derived header byte layout equals the v3 table entry by entry (127 bytes)",
    "R-HDR-REJECT": "wrong magic / version / unknown enum codes have no accepting path in the derived reader",
    "R-HDR-IO": "header I/O is one read_exact of [u8;127] / one write_all of the serialised header",
    "R-ROUND": "degrees×1e7 is rounded to nearest before the integer cast; the decoder divides by the same constant",
    "R-TWIN": "sync and async instantiations of one template are isomorphic modulo the twin table",
    "R-TWIN-HAND": "hand-written sync/async siblings have the same stream-effect and parser skeleton",
    "R-FACTORY": "the codec factories agree per Compression variant (family, direction, pass-through)",
    "R-REJ-UNKNOWN": "Compression::Unknown ⇒ Err in every factory; codecs are only built by the factories",
    "R-ONESHOT": "one-shot helpers write/drain everything through the factory codec and return the sink",
    "R-XFER": "no short-transfer primitive is used",
    "R-XFER-SITE": "inventory of stream transfer sites",
    "R-NOPOLL": "the crate implements no poll-level I/O itself",
    "R-RESULT-USED": "no Result or future produced by a call is dropped or swallowed",
    "R-NO-UNWRAP": "no unwrap/expect/panic in library code",
    "R-FINALISE": "a codec writer's finishing error can surface (later fallible op on the sink / close().await?)",
    "R-TAINT-ARITH": "arithmetic on input-derived integers is checked, width-safe, guarded or allow-listed with a reason",
    "R-TAINT-ALLOC": "allocation sizes derived from input are clamped or bounded by type",
    "R-TAINT-INDEX": "indexing with/into input-derived data is guarded or allow-listed",
    "R-WALK-DEPTH": "the walker's depth budget admits at least root + three nested leaf levels from every entry point (start, step and limit read off the code)",
    "R-REC-BOUND": "recursion threads a constant-bounded depth",
    "R-RANGE-END": "the inclusive range end is computed without unchecked arithmetic",
    "R-LEAF-SKIP": "a leaf is skipped only if its first id is strictly beyond the inclusive end",
    "R-FILTER-GUARD": "every inserted id passed filter_range.contains; the filter is forwarded unchanged",
    "R-PARTIAL-SAME": "full and partial opens share one implementation, differing only in the range",
    "R-ZXY-GUARD": "coordinate lookup converts only when z ≤ 31 and x,y < 2^z, else answers no tile",
    "R-REJ-META": "metadata is accepted only through the Value::Object pattern",
    "R-SEEK-AFTER-CODEC": "after a read through a buffering/decoding wrapper the raw position is unspecified: every later read first seeks absolutely",
    "R-LISTING": "id listing and tile count come from the id map; public wrappers forward unchanged",
    "R-ADD-OFFSET": "registering a reader-backed tile stores exactly id ↦ (offset, length) and refuses length 0",
    "R-FINDZ": "the zoom search returns a zoom only under the strict test id < end of that zoom's block, over zooms 1..=31, else an error",
    "R-HILBERT-CALL": "both conversions call hilbert_2d with the arguments in order, Variant::Hilbert, and the zoom base 1 + Σ4^i",
}

PROPERTIES = {}


def prop(pid, rules, explanation, decides, does_not_decide, **kw):
    PROPERTIES[pid] = dict(rules=rules, floors={}, explanation=explanation, decides=decides, does_not_decide=does_not_decide, **kw)


RUNTIME = "run-time equalities over all inputs (round trips, byte equality with independent codecs) — quantify over values; only the named structural necessary conditions are decided"

prop("C01", [rw.r_layout_w, rw.r_section_content, rw.r_fieldmap_w, rr.r_fieldmap_r, rr.r_addr_open, rr.r_exact_tile, rh.r_round, st.r_hashid, st.r_hashfn, st.r_finish_pair, st.r_rle_dep, st.r_order,
              rs.r_budget, rs.r_leafptr, rs.r_reseek, rd.r_cols_reader, rd.r_cols_writer, rr.r_walk, tt.r_walk_complete, rr.r_meta0, rh.r_hdr_io, st.r_add_pair, st.r_remove_guard, st.r_lookup, rt.r_factory, rr.r_bounded_read, rr.r_seek_after_codec, st.r_add_offset, rt.r_finalise_async],
     "Necessary conditions of the write→read round trip, decided on both twins: header settings are paired field by field in writer and opener (R-FIELDMAP), section "
     "offsets/lengths equal the measured writes (R-LAYOUT-W, affine stream model), the opener rebases entry offsets by tile_data_offset and the lookup reads exactly "
     "(offset,length) (R-ADDR/R-EXACT-TILE), coordinates are rounded to nearest (R-ROUND), contents are laid out once with offsets read before the append "
     "(R-FINISH-PAIR), and content identity is not decided by the hash alone (R-HASHID: known finding).  Because a round trip goes through the directory codec, "
     "the leaf spill and the directory walk, their rules (R-COLS/R-DELTA/R-OFFRULE, R-LEAFPTR/R-BUDGET/R-RESEEK, R-WALK, R-META0, R-RLE-DEP, R-ORDER) are necessary conditions too and are evaluated here as well.",
     ["R-FIELDMAP", "R-LAYOUT-W", "R-REL", "R-ADDR", "R-EXACT-TILE", "R-ROUND", "R-FINISH-PAIR", "R-COUNTERS", "R-HASHID", "R-COLS", "R-DELTA", "R-OFFRULE", "R-LEAFPTR", "R-BUDGET", "R-RESEEK", "R-WALK", "R-META0", "R-RLE-DEP", "R-ORDER", "R-HDR-IO"],
     [RUNTIME, "metadata equality through serde_json", "contents larger than 4 GiB"])

prop("C02", [rh.r_hdr_layout, rw.r_hdr_const, rw.r_layout_w, rw.r_section_content, rs.r_budget, rs.r_leafptr, rs.r_reseek, st.r_finish_pair, st.r_rle_dep, rw.r_fieldmap_w, st.r_order, st.r_clustered, rd.r_cols_writer, rc.r_cfg_jsonorder, rh.r_hdr_io, rt.r_factory, rt.r_finalise_async],
     "Static agreement of the writer with the v3 specification table (/verif/spec/v3.json, transcribed from the spec): derived header byte layout and enum codes "
     "(R-HDR-LAYOUT), spec_version 3, sections laid out back to back after the header with offsets equal to the measured positions, root directory ≤ 16 257 bytes, "
     "counters computed once per entry/content and passed name for name, clustered=true backed by an ascending sort before layout, directory columns in spec order.",
     ["R-HDR-LAYOUT", "R-HDR-CONST", "R-LAYOUT-W", "R-BUDGET", "R-COUNTERS", "R-FINISH-PAIR", "R-ORDER", "R-CLUSTERED", "R-COLS (encoder)", "metadata field is a JSON object map (type fact)"],
     [RUNTIME, "that directories decode with an independent reader", "the spec's lookup procedure on produced files"])

prop("C03", [rr.r_walk, tt.r_walk_complete, rr.r_addr_open, rr.r_exact_tile, rr.r_meta0, rr.r_fieldmap_r, rr.r_find, rd.r_cols_reader, rr.r_rej_meta, rr.r_bounded_read, rh.r_hdr_io, rt.r_factory, rr.r_seek_after_codec, st.r_add_offset, tt.r_depth_admits],
     "The opener, directory walker, decoder and lazy fetch are checked path by path: runs are expanded for the entry whose offset/length are stored, recursion uses "
     "leaf base + entry offset and the entry's length, leaf/tile dispatch is on run_length == 0, tile addresses are rebased by tile_data_offset, metadata length 0 "
     "yields an empty object without reads, settings are reported from the header fields, single-directory lookup uses !leaf && range.contains.",
     ["R-WALK", "R-ADDR", "R-EXACT-TILE", "R-META0", "R-FIELDMAP (reader)", "R-FIND", "R-COLS/R-DELTA/R-OFFRULE (decoder)"],
     [RUNTIME, "correctness on every foreign layout at run time"])

prop("C04", [st.r_hashid, st.r_hashfn, st.r_add_pair, st.r_remove_guard, st.r_lookup, st.r_rej_empty, rr.r_exact_tile, st.r_finish_pair, st.r_rle_dep, rr.r_addr_open, rr.r_walk, tt.r_walk_complete, st.r_order, rd.r_cols_writer, rd.r_cols_reader, rw.r_layout_w, rw.r_section_content, rs.r_leafptr, st.r_listing, st.r_add_offset],
     "Structural necessary conditions each store mutator must satisfy for the store to behave like a map: add removes the old binding and performs exactly one "
     "consistent insert into each map, remove drops bytes only under an emptiness test made after removing the id, lookup resolves the requested id and answers None "
     "for unknown ids, and content identity is not decided by the 64-bit hash alone (R-HASHID: known finding with a concrete colliding pair).",
     ["R-ADD-PAIR", "R-REMOVE-GUARD", "R-LOOKUP", "R-REJ-EMPTY", "R-HASHID"],
     ["the representation invariant over arbitrary edit histories (inductive argument over three hash maps is out of reach)", "listing/count agreement over histories"])

prop("C05", [rd.r_cols_reader, rd.r_cols_writer, rd.r_len0_err, rd.r_dir_twins, rt.r_finalise_async, rt.r_factory],
     "Decoder and encoder (sync and async twins) are compared with the spec's column table: count first, then one pass per column in the order id, run length, length, "
     "offset with integer types u64/u32/u32/u64, all through one codec handle; ids are delta coded from 0; the offset rule's condition and both arms are affine-exact in "
     "both directions; zero lengths are refused before being stored/emitted.",
     ["R-COLS", "R-DELTA", "R-OFFRULE", "R-LEN0", "R-FACTORY (the requested compression selects the same codec family in all four factories)"],
     [RUNTIME, "codec round trips (library behaviour)"])

prop("C06", [rs.r_budget, rs.r_leafptr, rs.r_reseek, rw.r_layout_w, rw.r_section_content, rd.r_cols_writer, rd.r_cols_reader, rr.r_walk, tt.r_walk_complete, rt.r_finalise_async, rt.r_factory],
     "The root writers are analysed with the stream-position model: every Ok exit is dominated by a comparison of the *measured* root length against exactly 16 257 "
     "(spill: at most), the fitting case returns an empty leaf section, leaf pointers carry chunk[0].tile_id / cursor position before the leaf write / bytes written / "
     "run_length 0, each retry re-seeks to the remembered start and grows the leaf size, and the archive writer places the returned leaf bytes after the metadata.",
     ["R-BUDGET", "R-LEAFPTR", "R-RESEEK", "R-LAYOUT-W (leaf section)", "R-FACTORY (root and leaves are written with the codec the requested compression names, sync and async)"],
     [RUNTIME, "that resolving root+leaves reproduces the entries for every list"])

prop("C07", [tt.r_zxy_guard, tt.r_findz, tt.r_hilbert_call],
     "Only the last clause is decided: the coordinate lookups convert (z,x,y) to an id only on paths where z ≤ 31 (exactly) and x,y < 2^z were established (through "
     "the predicate they call, expanded one level), the shift is evaluated under the zoom guard, and every other path answers Ok(None) or an error.",
     ["R-ZXY-GUARD", "R-FINDZ (zoom search: strict block test, zooms 1..=31, error exit)", "R-HILBERT-CALL (argument order, variant and zoom base of both conversions)"],
     ["the Hilbert identities (ids equal the spec's, inverse conversion, contiguity, adjacency, child blocks): numerical facts about hilbert_2d over 6·10^18 points — no static argument in reach; explicitly declined"])

prop("C08", [tt.r_taint_arith, tt.r_pow, tt.r_taint_alloc, tt.r_taint_index, tt.r_rec_bound, rt.r_no_unwrap, tt.r_range_end, tt.r_zxy_guard],
     "A must-be-guarded discipline over the whole crate: every integer operation, allocation size and index whose operands may derive from input bytes (dependence "
     "analysis with loop-carried sources; caller-chosen coordinates and ids included) must be checked/saturating, discharged by the width domain, guarded by a "
     "decision on every path, or listed in the reasoned allow-table; recursion must thread a constant-bounded depth; no unwrap/expect/panic exists.",
     ["R-TAINT-ARITH", "R-TAINT-ALLOC", "R-TAINT-INDEX", "R-REC-BOUND", "R-NO-UNWRAP", "R-RANGE-END", "R-ZXY-GUARD (the allow-table entries for tile_id rest on it)"],
     ["panics inside dependencies", "resource use proportional to declared run lengths (outside the claim)", "taint through closure parameters of iterator adaptors (only tile_id/zxy use them; covered by the allow-table and R-ZXY-GUARD)"])

prop("C09", [rh.r_hdr_layout, rh.r_hdr_io, rh.r_hdr_reject, rh.r_round],
     "The header's derived byte layout (field order, widths, enum tags, magic, endianness, 8-bit bool, i32 coordinates) is compared entry by entry with the v3 "
     "table and sums to 127; reader/writer perform exactly one read_exact into [u8;127] / one write_all of the DekuWrite output; magic, assert_eq=3 and exact enum "
     "code sets leave no accepting path for invalid input; the coordinate writer rounds to nearest before the cast and the reader divides by the same 1e7.",
     ["R-HDR-LAYOUT", "R-HDR-IO", "R-HDR-REJECT", "R-ROUND"],
     ["deku's generated code", "the exhaustive 2^32 coordinate claim (implied by R-ROUND and an error bound, not enumerated)"])

prop("C10", [st.r_hashid, st.r_hashfn, st.r_finish_pair, st.r_rle_dep, st.r_remove_guard, st.r_add_pair, rr.r_exact_tile, st.r_order, st.r_lookup, rd.r_cols_writer, rd.r_cols_reader, rw.r_layout_w],
     "Layout: bytes are appended exactly on the dedup miss, once, with the offset read before the append and the length of the appended content; a hit reuses the "
     "stored pair; reader-backed tiles are hashed with the same function; a run is extended only for the adjacent id with an equal offset, by one; in memory, bytes "
     "are dropped only when the last id goes away. R-HASHID (identity by bytes) is a known finding.",
     ["R-FINISH-PAIR", "R-COUNTERS", "R-RLE-DEP", "R-REMOVE-GUARD", "R-ADD-PAIR", "R-HASHID", "R-LAYOUT-W (the declared tile-data length is the length of the laid-out contents, wherever the archive starts)"],
     [RUNTIME, "minimality over all duplication patterns", "retention over edit histories"])

prop("C11", [tt.r_range_end, tt.r_leaf_skip_and_filter, tt.r_filter_complete, tt.r_partial_same, rr.r_walk, tt.r_walk_complete, rr.r_addr_open, rd.r_cols_reader, rr.r_bounded_read, rs.r_leafptr_first_id],
     "The inclusive range end is computed without unchecked arithmetic for all three bound kinds; every map insert in the walker is dominated by "
     "filter_range.contains(&id) for the inserted id and the filter is forwarded unchanged; a leaf is skipped only on `first id > inclusive end` (strict, unbounded ⇒ "
     "never, independent of the start bound); full and partial opens are one implementation differing only in the range argument.",
     ["R-RANGE-END", "R-FILTER-GUARD", "R-LEAF-SKIP", "R-PARTIAL-SAME", "R-LEAFPTR (first-id clause only: the pointers of library-written archives carry the id the leaf skip compares)"],
     [RUNTIME])

prop("C12", [rt.r_twin, rt.r_factory, rd.r_dir_twins, rr.r_seek_after_codec, rt.r_finalise_async, tt.r_depth_twins, rt.r_meta0_twins],
     "Sibling agreement on code the test suite never compiles: every sync/async pair instantiated from one duplicate_item template must be isomorphic after making "
     "`?`, .await and async blocks transparent and mapping callees through the twin table (Read↔AsyncReadExt, flush↔close for codec writers, read_varint↔_async, local "
     "f↔f_async; integer type arguments must agree); hand-written pairs must have the same stream-effect/parser skeleton; the four codec factories must agree per variant.",
     ["R-TWIN", "R-TWIN-HAND", "R-FACTORY"],
     [RUNTIME, "byte identity of codec outputs"], needs_all_configs=True)

prop("C13", [rt.r_xfer_rule, rt.r_xfer_inventory, rt.r_nopoll, rh.r_hdr_io, rt.r_result_used, rr.r_seek_after_codec],
     "Transfer discipline: no call to a short-transfer primitive (read/write/read_vectored/poll_*) exists in the crate; every stream transfer goes through read_exact, "
     "read_to_end, write_all, the varint traits, serde_json's reader or a codec adapter (inventory in the evidence); the crate implements no Future/AsyncRead/"
     "AsyncWrite/Stream itself and touches no poll/waker API, so fragmentation and Pending are handled entirely inside the trusted libraries.",
     ["R-XFER", "R-NOPOLL", "R-HDR-IO"],
     ["the libraries' own loops", "results under concrete schedules"])

prop("C14", [rt.r_factory, rt.r_oneshot],
     "Only structural clauses: the four factories pair the same codec family and the right direction per variant, pass through for None and return Err for Unknown; "
     "compress_all writes all data, flushes with `?` and returns the sink; decompress_all drains with read_to_end.",
     ["R-FACTORY", "R-REJ-UNKNOWN", "R-ONESHOT"],
     ["that compress∘decompress is the identity for every byte string and chunking, and foreign-decoder compatibility: behaviour of flate2/brotli/zstd/async-compression; declined"])

prop("C15", [rt.r_result_used, rt.r_finalise, rt.r_no_unwrap],
     "Error discipline over the whole crate: every call producing a Result (or a future) has it propagated, returned or matched — never dropped, `let _`, .ok(), "
     ".unwrap_or*, if-let-Ok-only or an un-awaited future; no unwrap/expect/panic; a sync codec writer over a fallible sink (finished by Drop, which swallows the "
     "error) must be followed by another fallible operation on the same sink before Ok is returned, and async encoders must be closed after their last write.",
     ["R-RESULT-USED", "R-NO-UNWRAP", "R-FINALISE"],
     ["exhaustive fault points at run time", "completeness of library error paths"])

prop("C16", [st.r_order, st.r_hash_noleak, rc.r_cfg_jsonorder, rh.r_round, st.r_finish_pair, st.r_add_pair, st.r_remove_guard, st.r_rle_dep, rw.r_layout_w, rs.r_leafptr, rd.r_cols_writer, st.r_clustered, rd.r_cols_reader, rr.r_fieldmap_r, rw.r_fieldmap_w],
     "Sources of non-canonical output are closed structurally: the only hash-ordered iteration on the write path is sorted ascending by tile id before layout; content "
     "hashes are used only as map keys; serde_json is resolved without preserve_order and ahash with fixed keys; stored coordinates survive decode→encode (R-ROUND); "
     "in-memory and reader-backed tiles take the same layout path.",
     ["R-ORDER", "R-HASH-NOLEAK", "R-CFG-JSONORDER", "R-ROUND", "R-FINISH-PAIR", "R-FIELDMAP (a setting read back is the setting stored, and is written from the same field: read→write reproduces the header)"],
     [RUNTIME, "determinism of the codec libraries", "cross-process equality at run time"])

prop("C17", [rw.r_commit_order, rh.r_hdr_io, rh.r_hdr_reject],
     "Commit ordering on every success path of both writer twins: the first effect on the output is a seek to P+127, every section write precedes the header write, the "
     "header write is the last write effect, and the header reaches the stream through a single write_all; the reader rejects a missing magic.",
     ["R-SEEK-FIRST", "R-HDR-LAST", "R-HDR-IO", "R-HDR-REJECT"],
     ["what a pre-filled stream contained", "atomicity below write_all"])

prop("C18", [rw.r_layout_w, rw.r_abs, rs.r_reseek, rs.r_budget, rw.r_commit_order, rt.r_finalise_async],
     "Affine stream-position analysis with P the symbolic position at entry: all eight offset/length header fields are P-free and equal the measured sections, every "
     "SeekFrom::Start target has P-coefficient 1, the header lands at P, no seek goes below P, the stream is left at the archive end; the directory spill re-seeks to "
     "the remembered absolute root start.",
     ["R-REL", "R-LAYOUT-W", "R-ABS", "R-NO-WRITE-BEFORE-P", "R-RESEEK", "R-FINALISE (async encoders are closed after their last write: an unterminated section makes the bytes from P unreadable)"],
     ["that reading from P yields the archive (run-time; only the finalisation of every compressed section is decided)"])

prop("C19", [st.r_rej_empty, rd.r_len0_err, rd.r_cols_reader, rd.r_cols_writer, rr.r_rej_meta, rt.r_factory, st.r_add_offset, rd.r_codec_always],
     "Each documented rejection is a guard that dominates the effect it protects: the emptiness test precedes every store mutation and its true branch is an error "
     "exit without mutation; `length == 0` is an error exit before the store/emission in decoder and encoder; metadata is accepted only through the Value::Object "
     "pattern and both metadata readers end in that check; Unknown ⇒ Err in all four factories and codecs are built nowhere else.",
     ["R-REJ-EMPTY", "R-LEN0", "R-REJ-META", "R-REJ-UNKNOWN", "R-CODEC-ALWAYS"],
     ["'leaves the archive unchanged' beyond 'no mutation before the guard'"])

prop("C20", [rr.r_lazy, rr.r_bounded_read, rr.r_exact_tile, rh.r_hdr_io, rr.r_walk, tt.r_walk_complete, rr.r_meta0, rr.r_addr_open, rr.r_seek_after_codec, rd.r_cols_reader],
     "Call-graph and read-summary analysis: no function that fetches tile bytes is reachable from the opener; registering a tile has no stream effect; every read on "
     "the open path is the fixed 127-byte header read or goes through take(len) after seek(Start(off)) with (off,len) a header-declared section or the walker's leaf "
     "pair; a lookup seeks to the stored offset and performs exactly one read_exact of the stored length.",
     ["R-LAZY", "R-BOUNDED-READ", "R-EXACT-TILE", "R-HDR-IO", "R-COLS/R-OFFRULE (decoder): the byte range a lookup reads is the one the directory encodes"],
     ["read-ahead inside decoders (bounded by take)", "byte ranges at run time"])


# floors: instance counts confirmed on the repaired tree (bin/floors.json is regenerated only by hand with `check.py --freeze-floors`)
_fl = os.path.join(os.path.dirname(os.path.abspath(__file__)), "floors.json")
if os.path.exists(_fl):
    with open(_fl) as _f:
        _floors = json.load(_f)
    for _p, _v in _floors.items():
        if _p in PROPERTIES:
            PROPERTIES[_p]["floors"] = _v
            # the complete list of rules evaluated for the property (hand-written summary first, then every rule with its one-line meaning)
            PROPERTIES[_p]["decides"] = ["%s — %s" % (r, RULE_DOC.get(r, "")) for r in sorted(_v)]
