"""Property -> rules table, floors, documentation strings."""
import rules_writer as rw

TRUSTED_BASE = [
    "rustc's name resolution, type checking and constant evaluation (facts are read from the compiler's own HIR/typeck tables via pmlint)",
    "the external effect model of absint.py (which std/futures/integer-encoding/serde_json calls read, write, seek or query a stream) — DESIGN §3.6",
    "library contracts: write_all/read_exact loop on short transfers, take(n) bounds reads, codecs/deku/serde_json return errors instead of panicking",
]

RULE_DOC = {
    "R-REL": "C18/C01/C02: every header offset/length is relative to the archive start (independent of the stream's starting position P)",
    "R-LAYOUT-W": "C01/C02/C18: each section's header offset/length equals where and how much the writer actually wrote",
    "R-ABS": "C18: absolute seeks are P-based; the header lands at P; the stream is left at the archive's end",
    "R-NO-WRITE-BEFORE-P": "C18: no seek goes below the starting position",
    "R-SEEK-FIRST": "C17: the writer first skips the header region",
    "R-HDR-LAST": "C17: the header is the last thing written",
    "R-HDR-CONST": "C02: spec_version is 3",
    "R-FIELDMAP": "C01: every header setting is paired with the archive field of the same meaning",
    "R-COUNTERS": "C02: header counters are the layout result's counters, name for name",
}

PROPERTIES = {}


def prop(pid, rules, floors, explanation, decides, does_not_decide, **kw):
    PROPERTIES[pid] = dict(rules=rules, floors=floors, explanation=explanation, decides=decides, does_not_decide=does_not_decide, **kw)


prop("C18",
     rules=[rw.r_layout_w, rw.r_abs],
     floors={"R-REL": {"all": 16, "default": 8}, "R-LAYOUT-W": {"all": 20, "default": 10}, "R-ABS": {"all": 8, "default": 4},
             "R-NO-WRITE-BEFORE-P": {"all": 6, "default": 3}},
     explanation="Affine stream-position analysis of the archive writer (both the sync twin and the async twin that the test suite never compiles): "
                 "with P the symbolic position at entry, every header offset/length must be P-free and equal to the measured section positions, every "
                 "absolute seek must carry P with coefficient 1, the header must land at P, no seek may go below P and the stream must be left at the archive end.",
     decides=["R-REL: 8 offset/length header fields are independent of P", "R-LAYOUT-W: section offsets/lengths equal the measured writes",
              "R-ABS: SeekFrom::Start targets have P-coefficient 1, header written at P, final position = archive end", "R-NO-WRITE-BEFORE-P"],
     does_not_decide=["that reading the bytes from P on yields the archive (run-time round trip)", "behaviour of the caller's stream implementation"])
