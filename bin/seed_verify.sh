#!/bin/bash
# usage: seed_verify.sh <id> <dir with patch.diff demo.rs notes.md> [extra cargo flags for the demo]
# Confirms, in a scratch worktree of /repo HEAD, that the seeded change compiles (default + all features), passes the existing
# tests, and that the demonstration passes without the change and fails with it.  Prints a JSON summary.
ID="$1"; SRC="$2"; shift 2; FLAGS="$@"
SLOT=${SEED_SLOT:-0}; W=/tmp/sv/w$SLOT; export CARGO_TARGET_DIR=/tmp/sv/target$SLOT CARGO_NET_OFFLINE=true
mkdir -p /tmp/sv; rm -rf $W; git -C /repo worktree prune; git -C /repo worktree add -q --detach $W HEAD || exit 3
cd $W; mkdir -p examples; cp "$SRC/demo.rs" examples/demo.rs
run_demo() { timeout 900 cargo run --offline -q --example demo $FLAGS >/tmp/sv/demo$SLOT.out 2>&1; echo $?; }
ORIG=$(run_demo); ORIG_TAIL=$(tail -3 /tmp/sv/demo$SLOT.out | tr '\n' ' ' | cut -c1-300)
if ! git apply "$SRC/patch.diff" 2>/tmp/sv/apply$SLOT.err; then echo "{\"id\":\"$ID\",\"error\":\"patch does not apply: $(head -2 /tmp/sv/apply$SLOT.err | tr '\n\"' '  ')\"}"; cd /; git -C /repo worktree remove --force $W; exit 4; fi
B1=$(cargo build --offline -q 2>/dev/null; echo $?); B2=$(cargo build --offline -q --all-features 2>/dev/null; echo $?)
T1=$(cargo test --offline --lib 2>&1 | grep -E "^test result" | head -1); T1D=$(cargo test --offline --doc 2>&1 | grep -E "^test result" | head -1)
T2=$(cargo test --offline --all-features --lib 2>&1 | grep -E "^test result" | head -1)
MUT=$(run_demo); MUT_TAIL=$(tail -3 /tmp/sv/demo$SLOT.out | tr '\n' ' ' | tr '"' "'" | cut -c1-300)
STAT=$(git diff --stat -- src Cargo.toml | tail -1)
cd /; git -C /repo worktree remove --force $W
python3 - "$ID" "$ORIG" "$MUT" "$B1" "$B2" "$T1" "$T1D" "$T2" "$MUT_TAIL" "$STAT" "$FLAGS" <<'PY'
import json,sys
i,orig,mut,b1,b2,t1,t1d,t2,tail,stat,flags=sys.argv[1:12]
ok = orig=="0" and mut!="0" and b1=="0" and b2=="0" and " 0 failed" in t1 and "51 passed" in t1 and " 0 failed" in t1d and " 0 failed" in t2
print(json.dumps({"id":i,"confirmed":ok,"demo_exit_original":int(orig),"demo_exit_changed":int(mut),"build_default":int(b1),"build_all_features":int(b2),
 "tests_lib":t1,"tests_doc":t1d,"tests_lib_all_features":t2,"demo_output_changed":tail,"diffstat":stat.strip(),"demo_flags":flags}))
PY
