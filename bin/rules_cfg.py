"""Build-configuration facts (C16): resolved cargo features of serde_json and ahash; type-level facts."""
import engine
from rulebase import *


def r_cfg_jsonorder(ctx):
    obs = []
    repo = getattr(engine, "REPO_DIR", "/repo")
    args = {"all": ["--all-features"], "default": [], "serde": ["--no-default-features", "--features", "serde"], "async": ["--features", "async"]}.get(ctx.cfg, [])
    try:
        m = engine.cargo_metadata(repo, args)
    except engine.EngineError as ex:
        return [Ob("R-CFG-JSONORDER", "<cargo>", "metadata", False, str(ex)[:300])]
    ids = {p["id"]: p for p in m["packages"]}
    feats = {}
    for n in m["resolve"]["nodes"]:
        p = ids[n["id"]]
        if p["name"] in ("serde_json", "ahash", "indexmap"):
            feats.setdefault(p["name"], set()).update(n["features"])
    sj = feats.get("serde_json")
    obs.append(Ob("R-CFG-JSONORDER", "<cargo>", "serde_json without preserve_order (Map is a BTreeMap: key-ordered output)", sj is not None and "preserve_order" not in sj,
                  "serde_json resolved features: %s" % (sorted(sj) if sj is not None else "crate not found"), "Cargo.toml"))
    ah = feats.get("ahash")
    obs.append(Ob("R-CFG-JSONORDER", "<cargo>", "ahash with fixed keys (no-rng, no runtime/compile-time randomness)",
                  ah is not None and "no-rng" in ah and not (ah & {"runtime-rng", "compile-time-rng"}),
                  "ahash resolved features: %s" % (sorted(ah) if ah is not None else "crate not found"), "Cargo.toml"))
    # type-level: metadata is a JSON object map, so the serialised top-level value is an object
    adt = ctx.facts.adts.get("pmtiles::PMTiles")
    md = [f for f in (adt["variants"][0]["fields"] if adt else []) if f["name"] == "meta_data"]
    ok = bool(md) and md[0]["ty"].startswith("serde_json::map::Map<alloc::string::String, serde_json::value::Value>")
    obs.append(Ob("R-CFG-JSONORDER", "pmtiles::PMTiles", "meta_data is a serde_json::Map (top-level JSON value is an object)", ok, "field type: %s" % (md[0]["ty"] if md else "missing"), rel(adt["loc"]) if adt else ""))
    # the content hash uses the default (fixed-key) hasher, not a RandomState
    hf = [f for f in ctx.user_fns() if any(c["fn"] == "core::hash::Hasher::finish" for c in calls(f["body"]))]
    for f in hf:
        ctor = [c for c in calls(f["body"]) if c["fn"] == "core::default::Default::default" and "AHasher" in (c.get("resolved") or "")]
        rnd = [c for c in calls(f["body"]) if "RandomState" in c["fn"] or "build_hasher" in c["fn"]]
        obs.append(Ob("R-CFG-JSONORDER", f["path"], "content hash = AHasher::default() (fixed keys)", len(ctor) == 1 and not rnd,
                      "hasher constructors: %s" % [c.get("resolved") or c["fn"] for c in calls(f["body"]) if "ash" in (c.get("resolved") or c["fn"])], rel(f["loc"])))
    if not hf:
        obs.append(Ob("R-CFG-JSONORDER", "<anchor>", "content hash function", False, "anchor not found: function calling Hasher::finish"))
    return obs
