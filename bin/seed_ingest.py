#!/usr/bin/env python3
"""usage: seed_ingest.py <seed id> <property> <dir with patch.diff demo.rs notes.md> [demo cargo flags...]
Confirm a seeded change myself (bin/seed_verify.sh), evaluate all checks against it, and keep it under /verif/seeded/<id>/ if confirmed."""
import json, os, shutil, subprocess, sys
VERIF = os.path.dirname(os.path.dirname(os.path.abspath(__file__)))
sid, prop, src = sys.argv[1:4]
flags = sys.argv[4:]
out = subprocess.run([os.path.join(VERIF, "bin", "seed_verify.sh"), sid, src] + flags, stdout=subprocess.PIPE, stderr=subprocess.STDOUT, text=True).stdout
line = [l for l in out.splitlines() if l.startswith("{")]
if not line:
    print("verify produced no summary:\n" + out[-2000:]); sys.exit(2)
v = json.loads(line[-1])
if not v.get("confirmed") and not flags:
    # the demo may need the async API
    out = subprocess.run([os.path.join(VERIF, "bin", "seed_verify.sh"), sid, src, "--all-features"], stdout=subprocess.PIPE, stderr=subprocess.STDOUT, text=True).stdout
    line = [l for l in out.splitlines() if l.startswith("{")]
    if line:
        v2 = json.loads(line[-1])
        if v2.get("confirmed"):
            v = v2
print("verify:", json.dumps(v)[:600])
if not v.get("confirmed"):
    print("NOT CONFIRMED — not kept"); sys.exit(1)
ev = subprocess.run([sys.executable, os.path.join(VERIF, "bin", "seed_eval.py"), os.path.join(src, "patch.diff")], stdout=subprocess.PIPE, stderr=subprocess.STDOUT, text=True).stdout
fired = {}
for l in ev.splitlines():
    if l.startswith("{"):
        fired = json.loads(l)
dst = os.path.join(VERIF, "seeded", sid)
os.makedirs(dst, exist_ok=True)
for f in ("patch.diff", "demo.rs", "notes.md"):
    if os.path.exists(os.path.join(src, f)):
        shutil.copy2(os.path.join(src, f), os.path.join(dst, f))
notes = open(os.path.join(src, "notes.md")).read() if os.path.exists(os.path.join(src, "notes.md")) else ""
meta = {"id": sid, "property": prop, "origin": "independent sub-agent given only the property text and a scratch worktree",
        "needs_to_manifest": notes[:1500],
        "what_i_ran": "bin/seed_verify.sh (scratch worktree of /repo HEAD: demo on original → exit 0; apply patch; cargo build default + --all-features; cargo test --offline --lib/--doc and --all-features --lib; demo on changed → non-zero); bin/seed_eval.py (all 20 checks on a scratch copy with the patch applied)",
        "verification": v, "detected_by": fired, "detected_by_own_property_check": bool(fired.get(prop))}
json.dump(meta, open(os.path.join(dst, "meta.json"), "w"), indent=1)
print("kept %s; own-property check fires: %s; all: %s" % (sid, fired.get(prop), json.dumps(fired)[:500]))
