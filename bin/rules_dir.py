"""Directory wire codec rules (C05, C19, C03): R-COLS, R-DELTA, R-OFFRULE, R-LEN0 — reader and writer, both twins."""
import json
import os

from rulebase import *
from rules_writer import no_anchor, struct_field
from rules_reader import unmut, is_call_to, _conjuncts

SPEC = json.load(open(os.path.join(os.path.dirname(os.path.dirname(os.path.abspath(__file__))), "spec", "v3.json")))
COLS = SPEC["directory"]["columns"]

VREAD = ("integer_encoding::reader::VarIntReader::read_varint", "integer_encoding::reader::VarIntAsyncReader::read_varint_async")
VWRITE = ("integer_encoding::writer::VarIntWriter::write_varint", "integer_encoding::writer::VarIntAsyncWriter::write_varint_async")
ENTRY = "directory::Entry"


def dir_decoders(ctx):
    """the function that decodes a directory: reads varints (itself or through column helpers evaluated in place) and builds the Directory"""
    return [f for f in ctx.user_fns() if f["path"] not in ctx.inlinable and (ctx.calls_inl(f) & set(VREAD)) and ctx.has_struct_inl(f, "directory::Directory")]


def dir_encoders(ctx):
    """the directory serialiser: the function that (itself or through helpers evaluated in place) emits the varints, and is either one of
    Directory's own functions or a function over the entry slice (`&[Entry]`), wherever it lives and whatever it is called"""
    def over_entries(f):
        return "directory::Directory" in (f.get("self_ty") or "") or any("[directory::Entry]" in (p.get("ty") or "") for p in f["params"])
    return [f for f in ctx.user_fns() if f["path"] not in ctx.inlinable and (ctx.calls_inl(f) & set(VWRITE)) and over_entries(f)]


def full_ok_paths(fa):
    oks = [p for p in fa.paths if p.exit in ("ok", "tail")]
    if not oks:
        return []
    def nloops(p):
        # loops whose body ran: entered, and not left at once because a `while` condition was false on arrival
        return sum(1 for e in p.events if e.kind == "loop" and e.d["what"] == "enter") - sum(1 for e in p.events if e.kind == "loop" and e.d["what"] == "exit" and "how" not in e.d)
    m = max(nloops(p) for p in oks)
    return [p for p in oks if nloops(p) == m]


def targ(e):
    ta = e.d.get("targs") or []
    return ta[-1] if ta else None


def r_cols_reader(ctx):
    obs = []
    decs = dir_decoders(ctx)
    if not decs:
        return no_anchor("R-COLS", "directory decoder (function calling read_varint* and building Directory{..})")
    factories = set(f["path"] for f in ctx.codec_factories())
    for f in decs:
        fn = f["path"]
        fa = ctx.fa(f)
        paths = full_ok_paths(fa)
        if not paths:
            obs.append(Ob("R-COLS", fn, "decode: paths", False, "no success path", rel(f["loc"])))
            continue
        seen_offset_arms = set()
        for p in paths:
            rd = [e for e in p.events if e.kind == "call" and e.d["fn"] in VREAD]
            ok5 = len(rd) == 5
            if not ok5:
                obs.append(Ob("R-COLS", fn, "decode: five column phases", False, "expected 5 varint reads (count + 4 columns) on the full path, found %d" % len(rd), rel(f["loc"])))
                continue
            cnt = rd[0]
            count_t = unmut(cnt.d["ret"])
            obs.append(Ob("R-COLS", fn, "decode: count first, outside any loop", not cnt.loops, "count read at loop depth %d" % len(cnt.loops), cnt.loc()))
            # one distinct loop per column, in order, each iterating 0..count
            lids = [e.loops[-1] if e.loops else None for e in rd[1:]]
            ok_loops = all(l is not None for l in lids) and len(set(lids)) == 4
            obs.append(Ob("R-COLS", fn, "decode: one pass over all entries per column", ok_loops, "loops of the four column reads: %s" % lids, rd[1].loc()))
            iters = {}
            for e in p.events:
                if e.kind == "loop" and e.d["what"] == "enter":
                    iters[e.d["lid"]] = e
            idl = rd[1].loops[-1] if rd[1].loops else None
            pv = [x for x in p.events if x.kind == "call" and x.d["fn"].endswith("Vec::<T, A>::push") and x.loops and x.loops[-1] == idl]
            pushed_vec = unmut(pv[0].d["args"][0]) if len(pv) == 1 else None
            for col, e in zip(COLS[1:], rd[1:]):
                want_ty = col["int"]
                got = targ(e)
                obs.append(Ob("R-COLS", fn, "decode: %s is %s" % (col["name"], want_ty), got == want_ty, "%s column read as %s" % (col["name"], got), e.loc()))
                it = _loop_iter_term(p, e.loops[-1]) if e.loops else None
                ok_range = it is not None and it[0] == "struct" and it[1] == "core::ops::range::Range" and struct_field(it, "start") == C(0) and unmut(struct_field(it, "end")) == count_t
                if not ok_range and it is not None and col["name"] != "tile_id":
                    # `for entry in &mut entries`: the vector holds exactly `count` entries, pushed one per iteration of the 0..count id pass
                    base = it
                    while is_call_to(base, lambda s: s.endswith(("::iter_mut", "::iter", "::into_iter", "::enumerate"))) and base[2]:
                        base = base[2][0]
                    ok_range = pushed_vec is not None and base == pushed_vec
                if not ok_range and it is None and col["name"] == "tile_id" and e.loops and pushed_vec is not None:
                    # `while entries.len() < count { …; entries.push(..) }`: one push per iteration, so it runs exactly `count` times
                    lid_ = e.loops[-1]
                    ent_ = iters.get(lid_)
                    conds = [d for d in p.decisions() if ent_ is not None and d.seq > ent_.seq and d.d["how"] == "if" and d.loops and d.loops[-1] == lid_]
                    if conds and conds[0].d["outcome"] is True:
                        c = unmut(conds[0].d["cond"])
                        lt = c[0] == "bin" and ((c[1] in ("<", "!=") and unmut(c[2]) == ("call", "len", (pushed_vec,), None) and unmut(c[3]) == count_t) or
                                                 (c[1] in (">", "!=") and unmut(c[3]) == ("call", "len", (pushed_vec,), None) and unmut(c[2]) == count_t))
                        exits = [x for x in p.events if x.kind == "loop" and x.d["what"] == "exit" and x.d["lid"] == lid_ and x.d.get("how") in ("continue", "break")]
                        ok_range = lt and not exits
                        it = c
                obs.append(Ob("R-COLS", fn, "decode: %s loop runs 0..count" % col["name"], ok_range, "iterates %s" % (tstr(it)[:100] if it else "?"), e.loc()))
            # all transfers through one codec handle over take(length)
            recvs = set(unmut(e.d["args"][0]) for e in rd)
            h = list(recvs)[0] if len(recvs) == 1 else None
            ok_h = h is not None and is_call_to(h, lambda s: s in factories) and any(is_call_to(t, lambda s: s.endswith("::take")) for t in subterms(h))
            obs.append(Ob("R-COLS", fn, "decode: every column read goes through one decompressor over take(length)", ok_h,
                          "receivers: %s" % "; ".join(tstr(r)[:100] for r in recvs), cnt.loc()))
            comp_ok = h is not None and role_param(fa, f, "compression") in h[2]
            obs.append(Ob("R-COLS", fn, "decode: decompressor built from the `compression` argument", comp_ok, "handle = %s" % (tstr(h)[:120] if h else "?"), cnt.loc()))
            # destinations
            idr, runr, lenr, offr = rd[1:]
            obs += _check_id_column(fn, fa, p, idr)
            obs += _check_store(fn, p, runr, "run_length", "R-COLS")
            obs += _check_store(fn, p, lenr, "length", "R-COLS")
            obs += _check_len0_reader(fn, p, lenr)
            o2, arm = _check_offrule_reader(fn, fa, p, offr)
            obs += o2
            if arm is not None:
                seen_offset_arms.add(arm)
            # result
            v = unmut(p.value)
            ent_var = None
            ok_res = is_call_to(v, lambda s: s == "core::result::Result::Ok") and v[2] and v[2][0][0] == "struct" and v[2][0][1] == "directory::Directory"
            obs.append(Ob("R-COLS", fn, "decode: returns Directory{entries}", ok_res, "returns %s" % tstr(v)[:100], rel(f["loc"])))
        obs.append(Ob("R-OFFRULE", fn, "decode: both arms of the offset rule exist", {"contig", "explicit"} <= seen_offset_arms,
                      "arms seen on success paths: %s" % sorted(seen_offset_arms), rel(f["loc"])))
    obs += r_decoder_refusals(ctx)
    return obs


def _loop_iter_term(p, lid):
    """the iterated expression's term of loop `lid` on path p"""
    for e in p.events:
        if e.kind == "loop" and e.d["what"] == "enter" and e.d["lid"] == lid and e.d.get("iter") is not None:
            return unmut(e.d["iter"])
    return None


def _stores(p, field, lid):
    out = []
    for e in p.events:
        if e.kind == "assign" and e.d.get("place") is not None and e.loops and e.loops[-1] == lid:
            pl = unmut(e.d["place"])
            if pl[0] == "f" and pl[2] == field:
                out.append((e, pl))
    return out


def _check_store(fn, p, rd, field, rule):
    lid = rd.loops[-1] if rd.loops else None
    st = _stores(p, field, lid)
    ok = False
    why = "no store to .%s in the %s loop" % (field, field)
    if len(st) == 1:
        e, pl = st[0]
        val = unmut(e.d["value"])
        base = pl[1]
        ok_idx = (base[0] == "idx" and base[2][0] == "elem" and base[2][2] == lid) or (base[0] == "elem" and base[2] == lid)
        ok = val == unmut(rd.d["ret"]) and ok_idx and e.seq > rd.seq
        why = "%s = %s" % (tstr(pl)[:80], tstr(val)[:80])
    return [Ob(rule, fn, "decode: %s column stored into entries[i].%s of the loop index" % (field, field), ok, why, rd.loc())]


def _check_id_column(fn, fa, p, rd):
    """R-DELTA (reader): pushed tile_id = running sum; running sum := running sum + delta"""
    obs = []
    lid = rd.loops[-1] if rd.loops else None
    pushes = [e for e in p.events if e.kind == "call" and e.d["fn"].endswith("Vec::<T, A>::push") and e.loops and e.loops[-1] == lid]
    ok = False
    why = "no push of an Entry in the id loop"
    if len(pushes) == 1:
        ent = unmut(pushes[0].d["args"][1])
        if ent[0] == "struct" and ent[1] == ENTRY:
            tid = struct_field(ent, "tile_id")
            a = affine(tid)
            delta = unmut(rd.d["ret"])
            atoms = dict(a[1])
            ok_delta = atoms.pop(delta, 0) == 1 and a[0] == 0
            run = None
            if len(atoms) == 1:
                (k, c), = atoms.items()
                if c == 1 and k[0] == "v" and k[1].startswith("loop%s:" % lid):
                    run = k
            srcs = set(unmut(s) for s in fa.havoc_src.get(run, ())) if run else set()
            ok_src = run is not None and C(0) in srcs and all(s == C(0) or aff_eq(affine(s), a) for s in srcs)
            if not ok_src and len(atoms) == 1:
                # no running variable: the base is read back from the entry pushed last — `entries.last().map_or(0, |prev| prev.tile_id)`
                (k, c), = atoms.items()
                vec = unmut(pushes[0].d["args"][0])
                if c == 1 and is_call_to(k, lambda s: s.endswith("::map_or")) and len(k[2]) == 3 and k[2][1] == C(0):
                    src, clos = unmut(k[2][0]), k[2][2]
                    from_last = is_call_to(src, lambda s: s.endswith(("::last", "::last_mut"))) and src[2] and unmut(src[2][0]) == vec
                    body_ok = clos[0] == "clos" and len(clos[2]) == 1 and unmut(clos[2][0])[0] == "f" and unmut(clos[2][0])[2] == "tile_id" and \
                        unmut(clos[2][0])[1][0] == "v" and unmut(clos[2][0])[1][1].startswith("clos%s:" % clos[1])
                    ok_src = from_last and body_ok
            ok = ok_delta and ok_src
            why = "pushed tile_id = %s; running sum sources = %s" % (aff_str(a), [tstr(s)[:60] for s in srcs])
    obs.append(Ob("R-DELTA", fn, "decode: tile_id = running sum of deltas starting at 0", ok, why, rd.loc()))
    return obs


def _check_len0_reader(fn, p, rd):
    lid = rd.loops[-1] if rd.loops else None
    st = _stores(p, "length", lid)
    val = unmut(rd.d["ret"])
    ok = False
    if st:
        # refuted before the store, or checked on the stored value afterwards: either way no success path keeps a zero length
        ok = knows(p, ("ne", val, 0)) is not None
    return [Ob("R-LEN0", fn, "decode: length stored only after `len == 0` was refuted", ok, "no success path keeps a length that was not tested against 0", rd.loc())]


def r_decoder_refusals(ctx):
    """R-COLS (exact refusal): the directory decoder gives up only because a read failed, because checked arithmetic on decoded values overflowed,
    or because an entry's length is 0 — any other refusal of its own rejects directories the specification allows"""
    obs = []
    props = ("C01", "C03", "C04", "C05", "C06")
    for f in dir_decoders(ctx):
        fa = ctx.fa(f)
        lens = set()
        for q in fa.paths:
            for ev_ in q.events:
                if ev_.kind == "assign" and ev_.d.get("place") is not None:
                    pl_ = unmut(ev_.d["place"])
                    if pl_[0] == "f" and pl_[2] == "length":
                        lens.add(unmut(ev_.d["value"]))

        def allowed(fct):
            if fct[0] == "eq" and fct[2] == 0:
                x = unmut(fct[1])
                return (x[0] == "f" and x[2] == "length") or x in lens or is_call_to(x, lambda s_: s_ in VREAD)
            if fct[0] == "variant" and fct[3] is False and str(fct[2]).endswith(("Option::Some", "Result::Ok")):
                x = unmut(fct[1])
                return x[0] == "bin" and x[1] in ("+", "-", "*")
            if fct[0] == "variant" and fct[3] is True and str(fct[2]).endswith("Option::None"):
                x = unmut(fct[1])
                return x[0] == "bin" and x[1] in ("+", "-", "*")
            return False
        n = 0
        seen = set()
        for p in fa.paths:
            if p.exit != "err":
                continue
            v = p.value
            if isinstance(v, tuple) and v and v[0] == "errprop":
                t = unmut(v[1])
                if (t[0] == "call" and t[1] != "core::result::Result::Err") or (t[0] == "bin" and t[1] in ("+", "-", "*")):
                    continue          # a failed read/decompression, or checked arithmetic that overflowed
                # (`?` applied to an `Err(..)` built by a helper evaluated in place is a refusal of the decoder's own)
            ex = [e for e in p.events if e.kind == "exit"]
            key = ex[-1].node.get("id") if ex else None
            why = rejects_because(p, None, allowed)
            n += 1
            if (key, why is not None) in seen:
                continue
            seen.add((key, why is not None))
            last = [d for d in p.decisions() if d.d["how"] != "try" and not d.d.get("folded")]
            obs.append(Ob("R-COLS", f["path"], "decode: refuses only for a zero length or an arithmetic overflow", why is not None,
                          "refusal justified by %s" % ("the length/overflow test" if why is not None else ("`%s`" % tstr(unmut(last[-1].d["cond"]))[:90] if last else "no test at all")),
                          ex[-1].loc() if ex else rel(f["loc"]), only=props))
        if n == 0:
            obs.append(Ob("R-COLS", f["path"], "decode: refusal exits", False, "the decoder has no refusal of its own (the zero-length rejection is gone)", rel(f["loc"]), only=props))
    return obs


def r_len0_err(ctx):
    """R-LEN0: the `== 0` branch of the length test is an error exit (reader and writer)"""
    obs = []
    for f in dir_decoders(ctx) + dir_encoders(ctx):
        fa = ctx.fa(f)
        n = 0
        for p in fa.paths:
            for fct, d in path_facts(p):
                if fct[0] == "eq" and fct[2] == 0:
                    other = fct[1]
                    stored_len = set()
                    for q in fa.paths:
                        for ev_ in q.events:
                            if ev_.kind == "assign" and ev_.d.get("place") is not None:
                                pl_ = unmut(ev_.d["place"])
                                if pl_[0] == "f" and pl_[2] == "length":
                                    stored_len.add(unmut(ev_.d["value"]))
                    is_len = (other[0] == "f" and other[2] == "length") or (other in stored_len)
                    if is_len:
                        n += 1
                        obs.append(Ob("R-LEN0", f["path"], "length == 0 ⇒ Err", p.exit == "err", "path exit after length == 0: %s" % p.exit, d.loc()))
        if n == 0:
            obs.append(Ob("R-LEN0", f["path"], "length == 0 test", False, "no `length == 0` decision found", rel(f["loc"])))
    return obs


def _check_offrule_reader(fn, fa, p, rd):
    obs = []
    lid = rd.loops[-1] if rd.loops else None
    st = _stores(p, "offset", lid)
    val = unmut(rd.d["ret"])
    if len(st) != 1:
        return [Ob("R-OFFRULE", fn, "decode: offset store", False, "expected one store to .offset in the offset loop, found %d" % len(st), rd.loc())], None
    e, pl = st[0]
    cur = pl[1]                                  # the entry being completed: entries[i] or the loop element
    stored = unmut(e.d["value"])
    a = affine(stored)
    # fields read through a view of an entry (`previous.as_ref()`, a copy) are fields of that entry
    a = (a[0], {(("f", _strip_views(k[1]), k[2]) if isinstance(k, tuple) and k and k[0] == "f" else k): v for k, v in a[1].items()})
    # which arm is this path on?  contiguous arm: the raw value is known to be 0 and a previous entry is known to exist
    facts = [f for f, d in path_facts(p, e.seq, after=rd.seq)]
    raw0 = ("eq", val, 0) in facts
    prev = _previous_entry(fa, p, cur, lid, facts)
    atoms = [k for k in a[1]]
    if prev is not None and prev[0] == "prevend":
        uses_end = a[0] == 0 and a[1] == {("proj", prev[1], prev[2].rpartition("::")[0].rpartition("::")[2] + "::" + prev[2].rpartition("::")[2] + ".0"): 1}
        if uses_end:
            obs.append(Ob("R-OFFRULE", fn, "decode: contiguous arm = prev.offset + prev.length, taken only for index > 0 and raw value 0", raw0,
                          "stored %s (the carried end of the previous entry); raw == 0 established: %s" % (aff_str(a), raw0), e.loc()))
            return obs, "contig"
        prev = None
    if prev is not None and prev[0] != "prevpair":
        prev = _strip_views(prev)
    uses_prev = prev is not None and a[0] == 0 and a[1] == {("f", prev, "offset"): 1, ("f", prev, "length"): 1}
    if prev is not None and prev[0] == "prevpair":
        uses_prev = a[0] == 0 and a[1] == {("proj", prev[1], 0): 1, ("proj", prev[1], 1): 1}
    if uses_prev:
        ok = raw0
        obs.append(Ob("R-OFFRULE", fn, "decode: contiguous arm = prev.offset + prev.length, taken only for index > 0 and raw value 0", ok,
                      "stored %s; raw == 0 established: %s" % (aff_str(a), raw0), e.loc()))
        return obs, "contig"
    want = (-1, {val: 1})
    if aff_eq(a, want):
        # the explicit arm must be the exact complement of the contiguous one: the same decision, other outcome
        # a raw value known to be non-zero is an explicit offset whatever else holds; otherwise the arm must be the exact complement of the contiguous one
        compl = (("ne", val, 0) in facts) or _no_previous_entry(fa, p, cur, lid, facts) or _complement_of_contig(fa, p, rd, e, val, cur, lid)
        obs.append(Ob("R-OFFRULE", fn, "decode: explicit arm = val − 1, taken exactly when the contiguous condition fails", compl, "stored %s" % aff_str(a), e.loc()))
        return obs, "explicit"
    obs.append(Ob("R-OFFRULE", fn, "decode: stored offset is prev.offset + prev.length or val − 1", False, "stored %s" % aff_str(a), e.loc()))
    return obs, None


def _prev_end_carrier(fa, P, vctor, lid):
    """a loop-carried value of a local enum that remembers where the previous entry's data ends: it enters the loop as a payload-free variant
    ("no previous entry"), and every value it is given inside is `checked(offset stored into the current entry + its length)` wrapped into the
    variant `vctor` (directly, or by `map_or(<another payload-free variant>, vctor)` for the overflowing case).  Then `P.vctor.0`, where P is
    known to be that variant, is previous.offset + previous.length."""
    enum = vctor.rpartition("::")[0]
    init = [unmut(x) for x in fa.havoc_init.get(P, ())]
    def unit_variant(t):
        return isinstance(t, tuple) and t and t[0] == "call" and t[1].startswith(enum + "::") and t[1] != vctor and not t[2]
    if len(init) != 1 or not unit_variant(init[0]):
        return False
    nm = P[1].rpartition(":")[2]
    given = []
    for q in fa.paths:
        for ev in q.events:
            if not (ev.kind == "assign" and ev.d.get("name") == nm and ev.loops and ev.loops[-1] == lid):
                continue
            v = unmut(ev.d["value"])
            given.append(v)
            if is_call_to(v, lambda s_: s_.endswith("::map_or")) and len(v[2]) == 3 and unit_variant(unmut(v[2][1])) and unmut(v[2][2])[:3] == ("call", vctor, ()):
                S = v[2][0]
            elif is_call_to(v, lambda s_: s_ == vctor) and len(v[2]) == 1:
                S = v[2][0]
            else:
                return False
            offs = [(unmut(x.d["place"])[1], unmut(x.d["value"])) for x in q.events if x.kind == "assign" and x.seq < ev.seq and x.d.get("place") is not None and
                    unmut(x.d["place"])[0] == "f" and unmut(x.d["place"])[2] == "offset" and x.loops and x.loops[-1] == lid]
            if len(offs) != 1:
                return False
            cur_q, stored_q = offs[0]
            want = aff_sub(affine(unmut(S)), affine(stored_q))
            if not aff_eq(want, affine(("f", cur_q, "length"))):
                return False
    srcs = [unmut(x) for x in fa.havoc_src.get(P, ())]
    return bool(given) and all(x in given or x in init for x in srcs)


def _previous_entry(fa, p, cur, lid, facts):
    """the term denoting the entry before `cur`, if this path has established that one exists:
       entries[i − 1] with i ≠ 0, or a loop-carried Option<Entry> known to be Some whose only non-None source is the entry just completed"""
    if cur[0] == "idx" and cur[2][0] == "elem":
        i_t = cur[2]
        if ("ne", i_t, 0) in facts:
            return ("idx", cur[1], ("bin", "-", i_t, C(1)))
        # `i.checked_sub(1).map(|p| entries[p])` known to be Some (Option modelled at payload level): entries[i − 1] exists
        want = ("idx", unmut(cur[1]), ("bin", "-", i_t, C(1)))
        for f in facts:
            if f[0] == "variant" and f[2] == "core::option::Option::Some" and f[3] is True and _strip_views(f[1]) == want:
                return want
        return None
    for f in facts:
        if f[0] == "variant" and f[3] is True and not f[2].startswith("core::") and unmut(f[1])[0] == "v" and str(unmut(f[1])[1]).startswith("loop%s:" % lid):
            if _prev_end_carrier(fa, unmut(f[1]), f[2], lid):
                return ("prevend", unmut(f[1]), f[2])
    for f in facts:
        if f[0] == "variant" and f[2] == "core::option::Option::Some" and f[3] is True:
            cand = f[1]
            base = cand
            while is_call_to(base, lambda s: s.endswith(("::as_ref", "::as_mut", "::as_deref", "::copied", "::cloned"))) and base[2]:
                base = base[2][0]
            if base[0] == "v" and base[1].startswith("loop%s:" % lid):
                srcs = [unmut(s) for s in fa.havoc_src.get(base, ())]
                somes = [s for s in srcs if is_call_to(s, lambda x: x == "core::option::Option::Some")]
                nones = [s for s in srcs if is_call_to(s, lambda x: x == "core::option::Option::None")]
                if len(somes) >= 1 and len(somes) + len(nones) == len(srcs) and all(_same_entry(s[2][0], cur) for s in somes):
                    return cand if cand == base else cand
                # … or a loop-carried Option<(offset, length)> of the entry just completed
                stored_offs = [unmut(ev_.d["value"]) for ev_ in p.events if ev_.kind == "assign" and ev_.d.get("place") is not None and
                               unmut(ev_.d["place"]) == ("f", cur, "offset")]
                # the sources are collected over all paths (each with its own read ids): every one must have the shape (…, cur.length); the one
                # assigned on *this* path must carry exactly the offset stored into cur on this path (or read back from it)
                nm = base[1].rpartition(":")[2]
                own = [unmut(ev_.d["value"]) for ev_ in p.events if ev_.kind == "assign" and ev_.d.get("name") == nm and ev_.loops and ev_.loops[-1] == lid]
                own_ok = (not own) or all(is_call_to(o, lambda x: x == "core::option::Option::Some") and o[2] and _pair_of(o[2][0], cur, stored_offs) for o in own)
                if len(somes) >= 1 and len(nones) >= 1 and len(somes) + len(nones) == len(srcs) and own_ok and all(_pair_of(s[2][0], cur, None) for s in somes):
                    return ("prevpair", base)
    return None


def _no_previous_entry(fa, p, cur, lid, facts):
    """this path has established that there is NO entry before `cur`: index 0, or the loop-carried Option that carries the previous entry
    (validated like in _previous_entry: its sources are None and Some(the entry / pair just completed)) is known to be None"""
    if cur[0] == "idx" and cur[2][0] == "elem" and ("eq", cur[2], 0) in facts:
        return True
    for f in facts:
        none_known = f[0] == "variant" and ((f[2] == "core::option::Option::None" and f[3] is True) or (f[2] == "core::option::Option::Some" and f[3] is False))
        if not none_known:
            continue
        base = f[1]
        while is_call_to(base, lambda s: s.endswith(("::as_ref", "::as_mut", "::as_deref", "::copied", "::cloned"))) and base[2]:
            base = base[2][0]
        base = unmut(base)
        if base[0] == "v" and base[1].startswith("loop%s:" % lid):
            srcs = [unmut(s_) for s_ in fa.havoc_src.get(base, ())]
            somes = [s_ for s_ in srcs if is_call_to(s_, lambda x: x == "core::option::Option::Some")]
            nones = [s_ for s_ in srcs if is_call_to(s_, lambda x: x == "core::option::Option::None")]
            if somes and nones and len(somes) + len(nones) == len(srcs) and all(_same_entry(s_[2][0], cur) or _pair_of(s_[2][0], cur, None) for s_ in somes):
                return True
    return False


def _strip_views(t):
    t = unmut(t)
    while is_call_to(t, lambda s: s.endswith(("::as_ref", "::as_mut", "::as_deref", "::copied", "::cloned", "::clone"))) and t[2]:
        t = unmut(t[2][0])
    if isinstance(t, tuple) and t and t[0] == "idx":
        return ("idx", unmut(t[1]), unmut(t[2]))
    return t


def _pair_of(t, cur, stored_offs=()):
    """(cur.offset, cur.length) — the offset either read back from the entry or the very value that was just stored into it"""
    t = unmut(t)
    if not (isinstance(t, tuple) and t and t[0] == "tup" and len(t[1]) == 2 and unmut(t[1][1]) == ("f", cur, "length")):
        return False
    if stored_offs is None:
        return True       # shape only
    first = unmut(t[1][0])
    return first == ("f", cur, "offset") or first in stored_offs or any(aff_eq(affine(first), affine(so)) for so in stored_offs)


def _same_entry(t, cur):
    t = unmut(t)
    while is_call_to(t, lambda s: s.endswith(("::clone", "::copied", "::cloned", "::to_owned"))) and t[2]:
        t = t[2][0]
    return t == cur


def _complement_of_contig(fa, p, rd, e, val, cur, lid):
    """on this (explicit) path some decision after the read was taken with the outcome opposite to the one that establishes the contiguous condition"""
    class _D:
        pass
    for d in p.decisions(e.seq):
        if d.seq < rd.seq:
            continue
        for flip in _flips(d):
            fs = decision_facts(flip)
            if ("eq", val, 0) in fs:
                # together with everything else known on the path up to that decision, would a previous entry be established?
                others = [f for f, dd in path_facts(p, d.seq, after=rd.seq)] + fs
                if _previous_entry(fa, p, cur, lid, others) is not None:
                    return True
    # a two-arm `match` whose first arm is the contiguous case (pattern and/or guard) and whose second arm is a catch-all: falling through to
    # the catch-all is the complement by construction, provided the first arm really establishes the contiguous condition
    for d in p.decisions(e.seq):
        if d.seq > rd.seq and d.d["how"] == "match" and d.d.get("pat") is not None and d.d["pat"]["k"] in ("Wild", "Bind"):
            arms = (d.node or {}).get("arms") or []
            if len(arms) > 2 and d.d.get("outcome") == len(arms) - 1:
                # several arms before the catch-all: each is the contiguous case (and establishes it) or a refusal (every path through it is an
                # error exit; what may be refused is R-COLS' business); at least one is the contiguous case
                contig_seen, all_ok = False, True
                for i_, arm_ in enumerate(arms[:-1]):
                    class _D:
                        pass
                    o = _D()
                    o.d = dict(d.d)
                    o.d["outcome"] = i_
                    o.d["pat"] = arm_["pat"]
                    o.node = d.node
                    fs = decision_facts(o)
                    if arm_.get("guard") is None and ("eq", val, 0) in fs and _previous_entry(fa, p, cur, lid, fs) is not None:
                        contig_seen = True
                        continue
                    exits = [q.exit for q in fa.paths for x in q.events if x.kind == "decide" and x.d.get("how") == "match" and (x.node or {}).get("id") == (d.node or {}).get("id") and x.d.get("outcome") == i_]
                    if not (exits and all(x == "err" for x in exits)):
                        all_ok = False
                if contig_seen and all_ok:
                    return True
            if len(arms) == 2:
                if arms[0].get("guard") is not None:
                    return True
                class _D:
                    pass
                o = _D()
                o.d = dict(d.d)
                o.d["outcome"] = 0
                o.d["pat"] = arms[0]["pat"]
                o.node = d.node
                fs = decision_facts(o)
                if ("eq", val, 0) in fs and _previous_entry(fa, p, cur, lid, fs) is not None:
                    return True
    return False


def _flips(d):
    class _D:
        pass
    out = []
    if d.d["how"] == "if" and d.d["outcome"] in (True, False):
        o = _D(); o.d = dict(d.d); o.node = d.node; o.d["outcome"] = not d.d["outcome"]
        out.append(o)
    return out


# ------------------------------------------------------------------------------------------------

def r_cols_writer(ctx):
    obs = []
    encs = dir_encoders(ctx)
    if not encs:
        return no_anchor("R-COLS", "directory encoder (Directory method calling write_varint*)")
    factories = set(f["path"] for f in ctx.codec_factories())
    for f in encs:
        fn = f["path"]
        fa = ctx.fa(f)
        global _FA
        _FA = fa
        paths = full_ok_paths(fa)
        if not paths:
            obs.append(Ob("R-COLS", fn, "encode: paths", False, "no success path", rel(f["loc"])))
            continue
        me = V("param:self")
        ents = ("f", me, "entries")
        if "self" not in fa.param_names:
            # the serialiser is an associated function over a borrowed entry slice
            sl = role_param(fa, f, "entries")
            if sl is not None:
                me = ents = sl
        arms = set()
        # no success path bypasses the codec: even an empty directory is a compressed stream holding the count varint
        for p in [q for q in fa.paths if q.exit in ("ok", "tail")]:
            wr0 = [e for e in p.events if e.kind == "call" and e.d["fn"] in VWRITE]
            okc = bool(wr0) and not wr0[0].loops and any(is_call_to(t, lambda s: s in factories) for t in subterms(unmut(wr0[0].d["args"][0])))
            if not okc:
                ex = [e for e in p.events if e.kind == "exit"]
                obs.append(Ob("R-COLS", fn, "encode: every success path writes the entry count through the compressor", False,
                              "a success path writes no count varint" if not wr0 else "count not written through a codec handle", ex[-1].loc() if ex else rel(f["loc"])))
        obs.append(Ob("R-COLS", fn, "encode: every success path writes the entry count through the compressor", True, "%d success paths" % len([q for q in fa.paths if q.exit in ("ok", "tail")]), rel(f["loc"])))
        for p in paths:
            wr = [e for e in p.events if e.kind == "call" and e.d["fn"] in VWRITE]
            if len(wr) != 5:
                obs.append(Ob("R-COLS", fn, "encode: five column phases", False, "expected 5 varint writes on the full path, found %d" % len(wr), rel(f["loc"])))
                continue
            cnt = wr[0]
            carg = unmut(cnt.d["args"][1])
            obs.append(Ob("R-COLS", fn, "encode: count = entries.len(), first, outside any loop", not cnt.loops and carg == ("call", "len", (ents,), None),
                          "count argument = %s" % tstr(carg)[:80], cnt.loc()))
            lids = [e.loops[-1] if e.loops else None for e in wr[1:]]
            obs.append(Ob("R-COLS", fn, "encode: one pass over all entries per column", all(l is not None for l in lids) and len(set(lids)) == 4, "loops: %s" % lids, wr[1].loc()))
            elems = []
            for col, e in zip(COLS[1:], wr[1:]):
                it = _loop_iter_term(p, e.loops[-1]) if e.loops else None
                ent, idx = _entry_of_iter(it, e.loops[-1] if e.loops else None, ents, me)
                elems.append((ent, idx))
                obs.append(Ob("R-COLS", fn, "encode: %s loop iterates the entries in order" % col["name"], ent is not None, "iterates %s" % (tstr(it)[:100] if it else "?"), e.loc()))
                got = e.d["tys"][1] if len(e.d["tys"]) > 1 else None
                obs.append(Ob("R-COLS", fn, "encode: %s is %s" % (col["name"], col["int"]), got == col["int"], "%s column written as %s" % (col["name"], got), e.loc()))
            recvs = set(unmut(e.d["args"][0]) for e in wr)
            h = list(recvs)[0] if len(recvs) == 1 else None
            ok_h = h is not None and is_call_to(h, lambda s: s in factories) and role_param(fa, f, "compression") in h[2]
            obs.append(Ob("R-COLS", fn, "encode: every column write goes through one compressor built from `compression`", ok_h,
                          "receivers: %s" % "; ".join(tstr(r)[:100] for r in recvs), cnt.loc()))
            idw, runw, lenw, offw = wr[1:]
            # R-DELTA
            ent = elems[0][0]
            if ent is not None:
                a = affine(unmut(idw.d["args"][1]))
                atoms = dict(a[1])
                ok_t = atoms.pop(("f", ent, "tile_id"), 0) == 1 and a[0] == 0
                last = None
                shifted = False
                if len(atoms) == 1:
                    (k, c), = atoms.items()
                    if c == -1 and k[0] == "v" and k[1].startswith("loop%s:" % idw.loops[-1]):
                        last = k
                    if c == -1 and k[0] == "shift":
                        # zipped with `once(0).chain(ids)`: 0 for the first entry, afterwards the previous entry's id
                        shifted = unmut(k[1]) == C(0) and unmut(k[2]) == ("f", ent, "tile_id")
                        last = k
                srcs = set(unmut(s) for s in fa.havoc_src.get(last, ())) if last and not shifted else set()
                ok_src = shifted or (last is not None and srcs == {C(0), ("f", ent, "tile_id")})
                obs.append(Ob("R-DELTA", fn, "encode: emits tile_id − previous tile_id (first: − 0)", ok_t and ok_src,
                              "emitted %s; `previous` sources = %s" % (aff_str(a), [tstr(s)[:50] for s in srcs]), idw.loc()))
            for (w, field, (ent, _)) in ((runw, "run_length", elems[1]), (lenw, "length", elems[2])):
                arg = unmut(w.d["args"][1])
                obs.append(Ob("R-COLS", fn, "encode: %s column emits entry.%s" % (field, field), ent is not None and arg == ("f", ent, field), "emitted %s" % tstr(arg)[:80], w.loc()))
            # R-LEN0 writer
            ent = elems[2][0]
            ok0 = False
            if ent is not None:
                ok0 = knows(p, ("ne", ("f", ent, "length"), 0), lenw.seq) is not None
            obs.append(Ob("R-LEN0", fn, "encode: length emitted only after `entry.length == 0` was refuted", ok0, "decisions before the length write", lenw.loc()))
            # R-OFFRULE writer
            ent, idx = elems[3]
            if ent is not None:
                val = unmut(offw.d["args"][1])
                dec = None
                nb = None
                contig = None
                # the deciding branch, in whatever form it is written (`i > 0 && off == nb`, `i == 0 || off != nb` with swapped arms, a helper …):
                # on one outcome both facts hold (contiguous arm), the other outcome is its complement (explicit arm)
                for d in p.decisions(offw.seq):
                    if d.d["how"] != "if" or not d.loops or d.loops[-1] != offw.loops[-1]:
                        continue
                    both = _offrule_facts(d, idx, ent)
                    other = _offrule_facts_flipped(d, idx, ent)
                    if both is not None:
                        dec, nb, contig = d, both, True
                    elif other is not None:
                        dec, nb, contig = d, other, False
                if dec is None:
                    # `next_byte: Option<u64>` that is None exactly for the first entry: knowing it is None is knowing `index == 0` (explicit arm)
                    for fct, d in path_facts(p, offw.seq):
                        if fct[0] == "variant" and d.loops and d.loops[-1] == offw.loops[-1] and \
                                ((fct[2] == "core::option::Option::None" and fct[3] is True) or (fct[2] == "core::option::Option::Some" and fct[3] is False)):
                            cand = unmut(fct[1])
                            if cand[0] == "v" and cand[1].startswith("loop"):
                                srcs_ = [unmut(x) for x in fa.havoc_src.get(cand, ())]
                                if any(is_call_to(x, lambda y: y == "core::option::Option::None") for x in srcs_) and not any(x[0] == "c" for x in srcs_):
                                    dec, nb, contig = d, cand, False
                if dec is None:
                    obs.append(Ob("R-OFFRULE", fn, "encode: condition is `index > 0 && offset == next_byte`", False, "no such decision before the offset write", offw.loc()))
                else:
                    srcs = set(unmut(s) for s in fa.havoc_src.get(nb, ())) if nb is not None and nb[0] == "v" else set()
                    want_nb = (0, {("f", ent, "offset"): 1, ("f", ent, "length"): 1})
                    def _is_start(s):
                        return s == C(0) or is_call_to(s, lambda x: x == "core::option::Option::None")
                    def _is_end(s):
                        while is_call_to(s, lambda x: x == "core::option::Option::Some") and s[2]:
                            s = s[2][0]
                        return aff_eq(affine(s), want_nb)
                    ok_nb = bool(srcs) and any(_is_start(s) for s in srcs) and all(_is_start(s) or _is_end(s) for s in srcs) and len(srcs) == 2
                    if not ok_nb and srcs and any(_is_start(s) for s in srcs):
                        # the carried value is the previous entry itself: None at the start, afterwards Some(current entry)
                        rest = [s for s in srcs if not _is_start(s)]
                        ok_nb = bool(rest) and all(is_call_to(s, lambda x: x == "core::option::Option::Some") and s[2] and _same_entry(s[2][0], ent) for s in rest)
                    obs.append(Ob("R-OFFRULE", fn, "encode: next_byte = previous offset + previous length (first: 0)", ok_nb, "next_byte sources = %s" % [tstr(s)[:60] for s in srcs], dec.loc()))
                    a = affine(val)
                    if contig:
                        arms.add("contig")
                        obs.append(Ob("R-OFFRULE", fn, "encode: contiguous arm emits 0", aff_eq(a, (0, {})), "emitted %s" % aff_str(a), offw.loc()))
                    else:
                        arms.add("explicit")
                        obs.append(Ob("R-OFFRULE", fn, "encode: explicit arm emits offset + 1", aff_eq(a, (1, {("f", ent, "offset"): 1})), "emitted %s" % aff_str(a), offw.loc()))
        obs.append(Ob("R-OFFRULE", fn, "encode: both arms of the offset rule exist", arms == {"contig", "explicit"}, "arms seen: %s" % sorted(arms), rel(f["loc"])))
    return obs


def _entry_of_iter(it, lid, ents, me):
    """entry term (and enumerate index term) for a loop over the directory's entries in order"""
    if it is None:
        return None, None
    base = it
    enum = False
    if is_call_to(base, lambda s: s.endswith("::zip")) and len(base[2]) == 2:
        # `entries.iter().zip(other)`: the first component walks the entries in order
        ent0, _ = _entry_of_iter(base[2][0], lid, ents, me)
        return ent0, None
    if is_call_to(base, lambda s: s.endswith("::enumerate")):
        enum = True
        base = base[2][0]
    mapped = False
    while is_call_to(base, lambda s: s.endswith(("::into_iter", "::iter", "::map", "Iterator::scan"))):
        if base[1].endswith(("::map", "Iterator::scan")):
            mapped = True      # (a scan, like a map, yields one value per element of the underlying sequence, in order)
        base = base[2][0]
    if base not in (ents, me):
        return None, None
    if mapped:
        # `entries.iter().map(|e| e.field)`: the loop variable is already the field of the element of the underlying sequence
        inner = it
        while is_call_to(inner, lambda s: s.endswith(("::map", "Iterator::scan"))):
            inner = inner[2][0]
        return ("elem", inner, lid), None
    el = ("elem", it, lid)
    if enum:
        return ("proj", el, 1), ("proj", el, 0)
    return el, None


def r_dir_twins(ctx):
    """both twins of decoder and encoder exist when the async feature is on"""
    obs = []
    want = 2 if "async" in ctx.facts.features else 1
    obs.append(Ob("R-COLS", "<crate>", "decoder twins", len(dir_decoders(ctx)) == want, "directory decoders found: %d (expected %d)" % (len(dir_decoders(ctx)), want)))
    obs.append(Ob("R-COLS", "<crate>", "encoder twins", len(dir_encoders(ctx)) == want, "directory encoders found: %d (expected %d)" % (len(dir_encoders(ctx)), want)))
    return obs


_FA = None


def _offrule_facts(d, idx, ent):
    """if decision d (with its outcome) establishes `index != 0` and `entry.offset == X`, return X"""
    fs = decision_facts(d)
    has_i = idx is not None and (("ne", idx, 0) in fs)
    eq = [f for f in fs if f[0] == "rel" and f[1] == "==" and ("f", ent, "offset") in (f[2], f[3])]
    if len(eq) == 1:
        nb = eq[0][3] if eq[0][2] == ("f", ent, "offset") else eq[0][2]
        # the previous entry itself is carried from iteration to iteration (`previous: Option<&Entry>`), the end of its data computed at the test
        a_ = affine(unmut(nb))
        if a_[0] == 0 and len(a_[1]) == 2 and set(a_[1].values()) == {1}:
            ks = list(a_[1])
            holders = set(unmut(k[1]) for k in ks if k[0] == "f")
            if len(holders) == 1 and sorted(k[2] for k in ks if k[0] == "f") == ["length", "offset"]:
                P = list(holders)[0]
                while is_call_to(P, lambda s_: s_.endswith(("::as_ref", "::copied", "::cloned", "::as_deref"))) and P[2]:
                    P = unmut(P[2][0])
                if _FA is not None and P[0] == "v" and P[1].startswith("loop"):
                    srcs = [unmut(s_) for s_ in _FA.havoc_src.get(P, ())]
                    somes = [s_ for s_ in srcs if is_call_to(s_, lambda x: x == "core::option::Option::Some")]
                    nones = [s_ for s_ in srcs if is_call_to(s_, lambda x: x == "core::option::Option::None")]
                    if somes and nones and len(somes) + len(nones) == len(srcs) and all(_same_entry(s_[2][0], ent) for s_ in somes):
                        return P      # Some ⇔ not the first entry; validated as "previous entry" here
        if has_i or _not_first_flag(fs):
            return nb
        # `preceding_end == Some(entry.offset)` with an Option that is None exactly for the first entry: equality already implies "not the first entry"
        if _FA is not None and nb[0] == "v":
            srcs = [unmut(s) for s in _FA.havoc_src.get(nb, ())]
            if srcs and any(is_call_to(s, lambda x: x == "core::option::Option::None") for s in srcs) and not any(s[0] == "c" for s in srcs):
                return nb
    return None


def _not_first_flag(fs):
    """a loop-carried boolean that marks the first iteration (`is_first`: true on entry, only ever set to false; or `seen_one`: false on entry,
    only ever set to true) is known to say "not the first entry" """
    if _FA is None:
        return False
    for f in fs:
        if f[0] != "bool":
            continue
        flag = unmut(f[1])
        if not (flag[0] == "v" and flag[1].startswith("loop")):
            continue
        init = set(unmut(x) for x in _FA.havoc_init.get(flag, ()))
        srcs = set(unmut(x) for x in _FA.havoc_src.get(flag, ()))
        first_val = ("lit", "bool", not f[2])          # the value the flag must have had on entry for this fact to mean "not first"
        later_val = ("lit", "bool", bool(f[2]))
        if init == {first_val} and srcs == {first_val, later_val}:
            return True
    return False


def _offrule_facts_flipped(d, idx, ent):
    """the same decision with the opposite outcome would establish both facts: this outcome is the exact complement (explicit arm)"""
    class _D:
        pass
    o = _D()
    o.d = dict(d.d)
    o.node = d.node
    if d.d["outcome"] is True:
        o.d["outcome"] = False
    elif d.d["outcome"] is False:
        o.d["outcome"] = True
    else:
        return None
    return _offrule_facts(o, idx, ent)


def r_codec_always(ctx):
    """R-CODEC-ALWAYS: no successful open bypasses the directory decoder and no successful archive write bypasses the directory encoder.  The rejection
    of `Compression::Unknown` (and of an absent root directory) lives inside the codec factories; so every success path of the directory
    decoder/encoder must build the (de)compressor, and every success path of every function between the opener/archive writer and the codec must
    pass through a function that always does (must-pass-through over the call graph)."""
    obs = []
    fns = {f["path"]: f for f in ctx.user_fns()}
    direct = {p: set(c["fn"] for c in calls(f["body"])) for p, f in fns.items()}

    def ok_paths(f):
        return [q for q in ctx.fa(f).paths if q.exit in ("ok", "tail")]

    def bypass(f, through):
        """success paths of f without a call into `through`"""
        return [q for q in ok_paths(f) if not any(e.kind == "call" and e.d["fn"] in through for e in q.events)]

    for what, codecs, tops, word in (("decode", dir_decoders(ctx), ctx.openers(), "Read"), ("encode", dir_encoders(ctx), ctx.archive_writers(), "Write")):
        if not codecs:
            obs += no_anchor("R-CODEC-ALWAYS", "directory %sr" % what)
            continue
        if not tops:
            obs += no_anchor("R-CODEC-ALWAYS", "archive opener" if what == "decode" else "archive writer")
            continue
        factories = set(f["path"] for f in ctx.codec_factories() if word in f["ret"])
        always = set()
        for f in codecs:
            b = bypass(f, factories)
            ok = bool(ok_paths(f)) and not b
            ex = [e for e in b[0].events if e.kind == "exit"] if b else []
            obs.append(Ob("R-CODEC-ALWAYS", f["path"], "%sr: every success path builds the %scompressor" % (what, "de" if what == "decode" else ""), ok,
                          ("a success path returns %s without building it" % tstr(unmut(b[0].value))[:80]) if b else "%d success paths" % len(ok_paths(f)),
                          ex[-1].loc() if ex else rel(f["loc"])))
            if ok:
                always.add(f["path"])
        # which functions can reach the codec at all
        reach = set(d["path"] for d in codecs)
        changed = True
        while changed:
            changed = False
            for p, cs in direct.items():
                if p not in reach and cs & reach:
                    reach.add(p)
                    changed = True
        changed = True
        while changed:
            changed = False
            for p in sorted(reach - always):
                try:
                    if ok_paths(fns[p]) and not bypass(fns[p], always):
                        always.add(p)
                        changed = True
                except PathExplosion:
                    pass
        for o in tops:
            ok = o["path"] in always
            why = "every success path passes through the directory %sr" % what
            loc = rel(o["loc"])
            if not ok:
                # name the function(s) on the way whose success path skips the codec
                culprits = []
                seen, work = set(), [o["path"]]
                while work:
                    q = work.pop()
                    if q in seen or q not in fns:
                        continue
                    seen.add(q)
                    if q in reach and q not in always:
                        b = bypass(fns[q], always | (reach - {q}))
                        if b:
                            ex = [e for e in b[0].events if e.kind == "exit"]
                            culprits.append((q, ex[-1].loc() if ex else rel(fns[q]["loc"])))
                        work.extend(direct[q] & reach)
                why = "success path(s) that never %s a directory: %s" % (what, "; ".join("%s (%s)" % c for c in culprits) or "?")
                if culprits:
                    loc = culprits[0][1]
            obs.append(Ob("R-CODEC-ALWAYS", o["path"], "%s: every success path %ss the root directory" % ("open" if what == "decode" else "write", what), ok, why, loc))
    return obs
