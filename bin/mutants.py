"""Mutant corpus self-test (thorough tier, and `python3 bin/mutants.py` by hand).

Every stored mutation of a property (hand-written ones from bin/mkmutants.py and the seeded ones kept under /verif/seeded) is applied to a scratch
copy of the *current* /repo tree (outside /repo and /verif, removed afterwards); the rules of the property are re-run on the copy and the
expected rule must report a violation that is not a known finding.  A patch that no longer applies is counted as skipped; an applied
mutant that is not detected is a checker regression (exit 2 in check.py — a statement about the checker, not about /repo).
"""
import json
import os
import shutil
import subprocess
import sys
import tempfile

sys.path.insert(0, os.path.dirname(os.path.abspath(__file__)))
import engine

VERIF = engine.VERIF
MUT = os.path.join(VERIF, "mutants")


def corpus():
    """hand-written mutants (mutants/index.json) + the seeded changes kept under /verif/seeded (each with the rules that were seen to fire)"""
    out = {}
    ip = os.path.join(MUT, "index.json")
    if os.path.exists(ip):
        for k, v in json.load(open(ip)).items():
            v = dict(v)
            v["path"] = os.path.join(MUT, k)
            out[k] = v
    sd = os.path.join(VERIF, "seeded")
    if os.path.isdir(sd):
        for d in sorted(os.listdir(sd)):
            mp = os.path.join(sd, d, "meta.json")
            pp = os.path.join(sd, d, "patch.diff")
            if not (os.path.exists(mp) and os.path.exists(pp)):
                continue
            meta = json.load(open(mp))
            det = meta.get("detected_by") or {}
            props = sorted(set([meta["property"]] + [k for k, v in det.items() if isinstance(v, list) and v]))
            rules = sorted(set(r for v in det.values() if isinstance(v, list) for r in v))
            out["seeded-" + d] = {"properties": props, "expect_rules": rules, "note": "seeded by an independent sub-agent for %s" % meta["property"], "path": pp,
                                  "expect_by_prop": {k: v for k, v in det.items() if isinstance(v, list)}}
    return out


def scratch_copy(repo):
    d = tempfile.mkdtemp(prefix="pmverif-mut-", dir=os.environ.get("PMVERIF_SCRATCH", "/tmp"))
    for name in ("src", "Cargo.toml", "Cargo.lock", "test", "README.md"):
        s = os.path.join(repo, name)
        if os.path.isdir(s):
            shutil.copytree(s, os.path.join(d, name))
        elif os.path.exists(s):
            shutil.copy2(s, os.path.join(d, name))
    return d


def apply_patch(d, patch):
    r = subprocess.run(["patch", "-p1", "--no-backup-if-mismatch", "-s", "-f", "-i", patch], cwd=d, stdout=subprocess.PIPE, stderr=subprocess.STDOUT, text=True)
    return r.returncode == 0, r.stdout


def build(tree, configs=("all", "default")):
    engine.REPO_DIR = tree
    facts = {}
    broken = {}
    for c in configs:
        try:
            facts.update(engine.build_facts(tree, [c], target_tag="mut"))
        except engine.EngineError as ex:
            broken[c] = str(ex)
    return facts, broken


def evaluate(prop, tree, configs=("all", "default"), built=None):
    """run the property's rules on a tree; returns (violated_rules:set, notes)"""
    import check
    import registry
    facts, broken = built if built is not None else build(tree, configs)
    engine.REPO_DIR = tree
    if not facts:
        return None, "does not compile: %s" % list(broken.values())[0][-400:]
    notes = []
    obs, _ = check.run_rules(prop, facts, notes)
    obs += check.check_floors(prop, obs, list(facts.keys()))
    kidx = check.KnownIndex(prop, facts)
    bad = set(o.rule for o in obs if not o.ok and kidx.match(o.rule, o.fn, o.site) is None)
    if broken and registry.PROPERTIES[prop].get("needs_all_configs"):
        bad.add("R-TWIN")
    return bad, ("; ".join("%s broken" % c for c in broken) if broken else "")


def run(prop, repo="/repo", only=None):
    res = {"ran": True, "applied": 0, "detected": 0, "skipped": [], "regressions": [], "details": []}
    for fname, meta in sorted(corpus().items()):
        if prop not in meta["properties"]:
            continue
        if only and only not in fname:
            continue
        patch = meta.get("path") or os.path.join(MUT, fname)
        if not os.path.exists(patch):
            continue
        if "expect_by_prop" in meta and not meta["expect_by_prop"].get(prop):
            continue   # a seeded change is replayed only for the properties whose check was seen to catch it
        d = scratch_copy(repo)
        try:
            ok, out = apply_patch(d, patch)
            if not ok:
                res["skipped"].append(fname)
                res["details"].append({"mutant": fname, "status": "patch does not apply to the current tree"})
                continue
            bad, note = evaluate(prop, d)
            if bad is None:
                res["skipped"].append(fname)
                res["details"].append({"mutant": fname, "status": "mutant does not compile on the current tree", "note": note})
                continue
            res["applied"] += 1
            hit = sorted(bad & set(meta["expect_rules"]))
            if hit:
                res["detected"] += 1
                res["details"].append({"mutant": fname, "status": "detected", "rules": hit, "all_fired": sorted(bad)})
            elif bad:
                res["detected"] += 1
                res["details"].append({"mutant": fname, "status": "detected by another rule", "rules": sorted(bad), "expected": meta["expect_rules"]})
            else:
                res["regressions"].append(fname)
                res["details"].append({"mutant": fname, "status": "NOT DETECTED", "expected": meta["expect_rules"], "note": note})
        finally:
            shutil.rmtree(d, ignore_errors=True)
    engine.REPO_DIR = repo
    return res


if __name__ == "__main__":
    import registry
    props = sys.argv[1:] or sorted(registry.PROPERTIES)
    only = None
    tot = {"applied": 0, "detected": 0}
    for p in props:
        r = run(p)
        tot["applied"] += r["applied"]
        tot["detected"] += r["detected"]
        for d in r["details"]:
            print(p, d["mutant"], d["status"], d.get("rules", ""), d.get("note", ""))
    print(tot)
