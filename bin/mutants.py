"""Mutant corpus self-test (thorough tier)."""


def run(prop, repo):
    return {"ran": False, "regressions": [], "note": "corpus not built yet"}
