"""Rule infrastructure: obligations, per-config context with role locators."""
import hir
from hir import walk, calls, rel, fmt
from absint import (FnAnalysis, compute_summaries, PathExplosion, affine, aff_str, aff_eq, aff_sub, aff_add, tstr, leaves,
                    subterms, V, C)


class Ob:
    """one obligation = one rule instance at one site"""
    __slots__ = ("rule", "fn", "site", "ok", "msg", "loc", "cfg", "values")

    def __init__(self, rule, fn, site, ok, msg, loc="", values=None):
        self.rule = rule
        self.fn = fn
        self.site = site
        self.ok = bool(ok)
        self.msg = msg
        self.loc = loc
        self.cfg = None
        self.values = values or {}

    def key(self):
        return (self.rule, self.fn, self.site)

    def as_json(self):
        return {"rule": self.rule, "fn": self.fn, "site": self.site, "ok": self.ok, "why": self.msg, "loc": self.loc,
                "config": self.cfg, "values": self.values}


class Ctx:
    """facts of one feature config + memoised analyses + role locators"""

    def __init__(self, facts):
        self.facts = facts
        self.cfg = facts.cfg
        self.summaries = compute_summaries(facts)
        self._fa = {}
        self._roles = {}

    def fa(self, fn):
        p = fn["path"]
        if p not in self._fa:
            self._fa[p] = FnAnalysis(self.facts, fn, self.summaries)
        return self._fa[p]

    def user_fns(self):
        return self.facts.user_fns()

    def fn(self, path):
        f = self.facts.fn(path)
        if f is not None and f["body"] is not None:
            return f
        return None

    def fns_calling(self, pred):
        out = []
        for f in self.user_fns():
            for c in calls(f["body"]):
                if pred(c["fn"]):
                    out.append(f)
                    break
        return out

    def has_struct(self, f, adt):
        for n in walk(f["body"]):
            if n["k"] == "Struct" and n.get("adt") == adt:
                return True
        return False

    def callgraph(self):
        if "cg" not in self._roles:
            cg = {}
            for f in self.user_fns():
                cg[f["path"]] = set(c["fn"] for c in calls(f["body"]) if c.get("local") or c["fn"] in self.facts.fns)
            self._roles["cg"] = cg
        return self._roles["cg"]

    def reachable(self, roots):
        cg = self.callgraph()
        seen = set()
        work = list(roots)
        while work:
            p = work.pop()
            if p in seen:
                continue
            seen.add(p)
            for q in cg.get(p, ()):
                if q in self.facts.fns:
                    work.append(q)
        return seen

    # ---- role locators (by what a function does, not by its private name)
    def archive_writers(self):
        """local functions that build a `Header { .. }` and hand it to `Header::to_writer*`"""
        out = []
        for f in self.user_fns():
            if self.has_struct(f, "header::Header") and any(c["fn"].startswith("header::Header::to_") and "writer" in c["fn"] for c in calls(f["body"])):
                out.append(f)
        return out

    def openers(self):
        """local functions that parse a header from a stream and build a `PMTiles { .. }`"""
        out = []
        for f in self.user_fns():
            if self.has_struct(f, "pmtiles::PMTiles") and any(c["fn"].startswith("header::Header::from_") and "reader" in c["fn"] for c in calls(f["body"])):
                out.append(f)
        return out

    def walkers(self):
        """recursive local functions that decode a directory from a stream"""
        out = []
        for f in self.user_fns():
            cs = [c["fn"] for c in calls(f["body"])]
            if f["path"] in cs and any(c.startswith("directory::Directory::from_") and "reader" in c for c in cs):
                out.append(f)
        return out

    def codec_factories(self):
        """local functions returning Box<dyn Read|Write|AsyncRead|AsyncWrite> that match on a Compression"""
        out = []
        for f in self.user_fns():
            if "Box<" in f["ret"] and "dyn " in f["ret"]:
                for n in walk(f["body"]):
                    if n["k"] == "Match" and n["e"]["ty"].endswith("Compression"):
                        out.append(f)
                        break
        return out


def twin_name(path):
    return path


def is_asyncish(f):
    return f["async"] or "Future<" in f["ret"]
