import re
"""Rule infrastructure: obligations, per-config context with role locators."""
import hir
from hir import walk, calls, rel, fmt
from absint import is_streamlike_ty as absint_streamlike
from absint import (FnAnalysis, compute_summaries, PathExplosion, affine, aff_str, aff_eq, aff_sub, aff_add, tstr, leaves,
                    subterms, V, C)


class Ob:
    """one obligation = one rule instance at one site"""
    __slots__ = ("rule", "fn", "site", "ok", "msg", "loc", "cfg", "values", "only")

    def __init__(self, rule, fn, site, ok, msg, loc="", values=None, only=None):
        self.only = only        # property ids this obligation is a necessary condition of (None: every property the rule is listed under)
        self.rule = rule
        self.fn = fn
        self.site = site
        self.ok = bool(ok)
        self.msg = msg
        self.loc = loc
        self.cfg = None
        self.values = values or {}

    def key(self):
        return (self.rule, self.fn, self.site)

    def as_json(self):
        return {"rule": self.rule, "fn": self.fn, "site": self.site, "ok": self.ok, "why": self.msg, "loc": self.loc,
                "config": self.cfg, "values": self.values}


_SEEKPOS = ("std::io::Seek::stream_position", "futures_util::io::AsyncSeekExt::stream_position", "std::io::Seek::seek", "futures_util::io::AsyncSeekExt::seek")


def dir_writer_fns(facts):
    """the functions that serialise a directory: associated functions of Directory that emit varints, and those of its functions that call them
    (the public `to_writer` in front of a private serialiser, whatever that one is called and whether it takes `&self` or the entry slice)"""
    def over_entries(f):
        return "directory::Directory" in (f.get("self_ty") or "") or any("[directory::Entry]" in (p.get("ty") or "") for p in f["params"])
    fns = {f["path"]: f for f in facts.user_fns() if over_entries(f)}
    direct = {p: set(c["fn"] for c in calls(f["body"])) for p, f in fns.items()}
    W = set(p for p, cs in direct.items() if any(c.endswith(("VarIntWriter::write_varint", "VarIntAsyncWriter::write_varint_async")) for c in cs))
    # (a function over the entry slice that merely *calls* a serialiser — the root writers do — is not one itself: only Directory's own
    #  functions are added by the closure below)
    fns = {p: f for p, f in fns.items() if p in W or "directory::Directory" in (f.get("self_ty") or "")}
    direct = {p: direct[p] for p in fns}
    changed = True
    while changed:
        changed = False
        for p, cs in direct.items():
            if p not in W and cs & W:
                W.add(p)
                changed = True
    return W


def spill_role_fns(facts):
    """the root-directory writers: local functions that take a seekable stream, return the leaf-section bytes (`Result<Vec<u8>>`) and — themselves
    or through private helpers that are not root writers of their own — write a Directory to the stream and observe/seek its position"""
    fns = {f["path"]: f for f in facts.user_fns()}
    def shape(f):
        return "Result<alloc::vec::Vec<u8>," in f["ret"] and any(absint_streamlike(p.get("ty") or "") for p in f["params"])
    dw = dir_writer_fns(facts)
    def matches(names):
        return any(n in dw for n in names) and any(n in _SEEKPOS for n in names)
    direct = {p: [c["fn"] for c in calls(f["body"])] for p, f in fns.items()}
    M = set(p for p, f in fns.items() if shape(f) and matches(direct[p]))
    changed = True
    while changed:
        changed = False
        for p, f in fns.items():
            if p in M or not shape(f):
                continue
            seen, work, names = set(), [p], []
            while work:
                q = work.pop()
                for n in direct.get(q, ()):
                    names.append(n)
                    g = fns.get(n)
                    if g is not None and n not in seen and n not in M and g["vis"] != "pub" and n != p:
                        seen.add(n)
                        work.append(n)
            if matches(names):
                M.add(p)
                changed = True
    return [fns[p] for p in sorted(M)]



def role_param(fa, f, kind, nth=0):
    """the interpreter's term for the parameter of `f` that plays a role its TYPE identifies (parameter names are free to change):
    compression = the Compression value; entries = the entry slice; range = the RangeBounds filter; u64 = a plain u64 (nth of them, in order);
    bytes = the caller's byte content (&[u8] / impl Into<Vec<u8>>)"""
    out = []
    for n, prm in zip(fa.param_names, f["params"]):
        t = prm["ty"] or ""
        tt = re.sub(r"&('\w+ )?(mut )?", "", t).strip()
        ok = {"compression": tt.endswith("compression::Compression"),
              "entries": "[directory::Entry]" in t,
              "range": "RangeBounds" in t and tt.split("<")[0] not in (getattr(getattr(fa, "facts", None), "adts", {}) or {}),
              "u64": tt == "u64",
              "u32": tt == "u32",
              "entryvec": "Vec<directory::Entry>" in t,
              "bytes": tt == "[u8]" or "Into<Vec<u8>>" in t or "Into<alloc::vec::Vec<u8>>" in t}[kind]
        if ok:
            out.append(V("param:" + n))
    if len(out) <= nth:
        # … or a field of a local struct the function receives (invariant arguments bundled into one parameter)
        adts = getattr(getattr(fa, "facts", None), "adts", {}) or {}
        for n, prm in zip(fa.param_names, f["params"]):
            tt = re.sub(r"&('\w+ )?(mut )?", "", prm["ty"] or "").strip()
            adt = adts.get(tt.split("<")[0])
            if not adt or adt.get("kind") != "struct":
                continue
            for fld in adt["variants"][0]["fields"]:
                ft = fld["ty"] or ""
                ftt = re.sub(r"&('\w+ )?(mut )?", "", ft).strip()
                okf = {"compression": ftt.endswith("compression::Compression"), "entries": "[directory::Entry]" in ft, "range": "RangeBounds" in ft or (kind == "range" and len(ftt) <= 2 and ftt[:1].isupper()),
                       "u64": ftt == "u64", "u32": ftt == "u32", "entryvec": "Vec<directory::Entry>" in ft, "bytes": ftt == "[u8]"}[kind]
                if okf:
                    out.append(("f", V("param:" + n), fld["name"]))
    return out[nth] if len(out) > nth else V("param:<no %s parameter>" % kind)

DOMAIN_TYPES = ("Entry", "Directory", "Compression", "LatLng", "TileType", "Header", "PMTiles", "TileManagerTile", "FinishResult", "TileManager", "OffsetLength",
                "MaxZError", "WriteDirsOverflowStrategy", "Error")


class Ctx:
    """facts of one feature config + memoised analyses + role locators"""

    def __init__(self, facts):
        self.facts = facts
        self.cfg = facts.cfg
        self.summaries = compute_summaries(facts)
        self._fa = {}
        self._roles = {}
        self._install_inline_policy()

    def _install_inline_policy(self):
        """which local callees the interpreter evaluates in place: small private helpers without any stream effect that are not themselves
        anchors of a rule (content hash, run-length merge, metadata object check, inclusive-range-end helper, zoom search)"""
        facts = self.facts
        cg = {}
        for f in facts.user_fns():
            cg[f["path"]] = set(c["fn"] for c in calls(f["body"]) if c["fn"] in facts.fns)
        def reach(a, seen=None):
            seen = seen or set()
            for b in cg.get(a, ()):
                if b not in seen:
                    seen.add(b)
                    reach(b, seen)
            return seen
        anchors = set()
        rle_paths = set(g["path"] for g in self.rle_fns())
        for f in facts.user_fns():
            cs = [c["fn"] for c in calls(f["body"])]
            if "core::hash::Hasher::finish" in cs:
                anchors.add(f["path"])
            if f["path"] in rle_paths:
                anchors.add(f["path"])
            if "core::ops::range::RangeBounds::end_bound" in cs:
                anchors.add(f["path"])
            if "MaxZError" in f["ret"] and "Result<u8" in f["ret"]:
                anchors.add(f["path"])
        # every function a rule addresses by its role keeps its identity (it is analysed as a unit and its callers see a call to it)
        anchors |= self._role_anchor_paths()
        ok = set()
        pure = set()
        for f in facts.user_fns():
            p = f["path"]
            m = re.match(r"<([\w:]+) as core::convert::From<", p)
            if m and m.group(1).rpartition("::")[2] not in DOMAIN_TYPES and p not in anchors and p not in reach(p) and not any(self.summaries.get(p, {}).values()):
                # a `From` impl for a helper type of the crate's own (not one of the types the rules speak about): a constructor, evaluated in place
                ok.add(p)
                pure.add(p)
                continue
            if f["vis"] == "pub" or p in anchors or p in reach(p):
                continue
            ok.add(p)
            s = self.summaries.get(p, {})
            if not any(s.values()):
                pure.add(p)
        self.inlinable = ok
        self.inlinable_pure = pure
        facts.no_inline = lambda fn: fn in ok

    def _store_roles(self):
        if "store_roles" not in self._roles:
            r = None
            for a in self.facts.adts.values():
                if a["kind"] != "struct":
                    continue
                maps = [f for f in a["variants"][0]["fields"] if "HashMap<" in f["ty"]]
                if len(maps) >= 3:
                    rr = {}
                    for f in maps:
                        if "HashSet<" in f["ty"]:
                            rr["ids"] = f["name"]
                        elif "Vec<u8>" in f["ty"]:
                            rr["data"] = f["name"]
                        elif "TileManagerTile" in f["ty"]:
                            rr["tiles"] = f["name"]
                    if len(rr) == 3:
                        r = rr
            self._roles["store_roles"] = r
        return self._roles["store_roles"]

    def _role_anchor_paths(self):
        """syntactic approximations of the role locators used by the rules (kept here so that the inline policy exists before any analysis runs)"""
        facts = self.facts
        out = set()
        spill = set(f["path"] for f in spill_role_fns(facts))
        HM = "std::collections::hash::map::HashMap::<K, V, S, A>::"
        for f in facts.user_fns():
            cs = [c for c in calls(f["body"])]
            names = [c["fn"] for c in cs]
            body = f["body"]
            def has(adt):
                return self.has_struct(f, adt)

            def has_deep(adt):
                return self.has_struct_deep(f, adt)
            # archive writer / opener / walker / factories / directory codec / root writers / layout / lazy fetch / header io / store mutators / json readers
            # (the header write itself may sit in a private helper that is handed the Header: the writer is the function that builds the Header)
            if has_deep("header::Header") and any(n.startswith("header::Header::to_") and "writer" in n for n in self.calls_deep(f)) and \
                    (has("header::Header") or any(n.startswith("header::Header::to_") and "writer" in n for n in names)):
                out.add(f["path"])
            if any(n.startswith("header::Header::from_") and "reader" in n for n in names) and has_deep("pmtiles::PMTiles"):
                out.add(f["path"])
            if f["path"] in names and any(n.startswith("directory::Directory::from_") and "reader" in n for n in names):
                out.add(f["path"])
            if "Box<" in f["ret"] and "dyn " in f["ret"] and f["path"] not in self._factory_impls()[1]:
                out.add(f["path"])
            if any(n.startswith("integer_encoding::") for n in names):
                # the directory codec proper builds the codec it reads/writes through (or is public); a private function that is merely handed the codec
                # and moves one column of varints is a helper of it, evaluated in place like any other
                builds_codec = any(n in facts.fns and "Box<" in facts.fns[n]["ret"] and "dyn " in facts.fns[n]["ret"] for n in names)
                if builds_codec or f["vis"] == "pub" or f["path"] in names:
                    out.add(f["path"])
            if f["path"] in spill:
                out.add(f["path"])
            # the layout function walks the tiles; a function that merely assembles the result struct from finished parts is a helper of it
            if has_deep("tile_manager::FinishResult") and any(n["k"] in ("For", "While", "Loop") for n in walk(body)):
                out.add(f["path"])
            if any(n in ("std::io::Read::read_exact", "futures_util::io::AsyncReadExt::read_exact") for n in names):
                out.add(f["path"])
            if (f.get("self_ty") or "") == "header::Header" and any(absint_streamlike(p.get("ty") or "") for p in f["params"]):
                out.add(f["path"])
            if any(n.startswith("serde_json::de::from_") for n in names):
                out.add(f["path"])
            if "TileManager" in (f.get("self_ty") or ""):
                # the store's add / remove / register functions (same definitions as rules_store: bytes-map insert, id-map remove, OffsetLength constructor)
                roles = self._store_roles()
                if roles:
                    def on_field(c, meth, fld):
                        return c["fn"] == HM + meth and c["k"] == "MCall" and c["recv"]["k"] == "Field" and c["recv"]["name"] == fld
                    if any(on_field(c, "insert", roles["data"]) for c in cs) or any(on_field(c, "remove", roles["tiles"]) for c in cs) or \
                            any(c["fn"] == "tile_manager::TileManagerTile::OffsetLength" for c in cs):
                        out.add(f["path"])
            if any("xy2h_discrete" in n or "h2xy_discrete" in n for n in names):
                out.add(f["path"])
        return out

    def fa(self, fn):
        p = fn["path"]
        if p not in self._fa:
            self._fa[p] = FnAnalysis(self.facts, fn, self.summaries)
        return self._fa[p]

    def user_fns(self):
        return self.facts.user_fns()

    def fn(self, path):
        f = self.facts.fn(path)
        if f is not None and f["body"] is not None:
            return f
        return None

    def fns_calling(self, pred):
        out = []
        for f in self.user_fns():
            for c in calls(f["body"]):
                if pred(c["fn"]):
                    out.append(f)
                    break
        return out

    def has_struct(self, f, adt):
        for n in walk(f["body"]):
            if n["k"] == "Struct" and n.get("adt") == adt:
                return True
        return False

    def has_struct_deep(self, f, adt):
        """f builds a value of `adt` itself or through private helpers it calls (which the interpreter evaluates in place)"""
        if self.has_struct(f, adt):
            return True
        seen, work = set(), [f]
        while work:
            g = work.pop()
            for c in calls(g["body"]):
                h = self.fn(c["fn"])
                if h is not None and h["vis"] != "pub" and h["path"] not in seen and h["path"] != f["path"]:
                    seen.add(h["path"])
                    if self.has_struct(h, adt):
                        return True
                    work.append(h)
        return False

    def inl_closure(self, f):
        """f together with the local functions the interpreter evaluates in place inside it (transitively)"""
        out, seen, work = [f], {f["path"]}, [f]
        while work:
            g = work.pop()
            for c in calls(g["body"]):
                h = self.fn(c["fn"])
                if h is not None and h.get("body") is not None and h["path"] in self.inlinable and h["path"] not in seen:
                    seen.add(h["path"])
                    out.append(h)
                    work.append(h)
        return out

    def calls_inl(self, f):
        """callee paths of f and of the helpers evaluated in place inside it"""
        return set(c["fn"] for g in self.inl_closure(f) for c in calls(g["body"]))

    def has_struct_inl(self, f, adt):
        return any(self.has_struct(g, adt) for g in self.inl_closure(f))

    def callgraph(self):
        if "cg" not in self._roles:
            cg = {}
            for f in self.user_fns():
                cg[f["path"]] = set(c["fn"] for c in calls(f["body"]) if c.get("local") or c["fn"] in self.facts.fns)
            self._roles["cg"] = cg
        return self._roles["cg"]

    def reachable(self, roots):
        cg = self.callgraph()
        seen = set()
        work = list(roots)
        while work:
            p = work.pop()
            if p in seen:
                continue
            seen.add(p)
            for q in cg.get(p, ()):
                if q in self.facts.fns:
                    work.append(q)
        return seen

    # ---- role locators (by what a function does, not by its private name)
    def calls_deep(self, f):
        """callee paths of f, looking through private local helpers (the functions the interpreter may evaluate in place)"""
        if "calls_deep" not in self._roles:
            self._roles["calls_deep"] = {}
        memo = self._roles["calls_deep"]
        if f["path"] in memo:
            return memo[f["path"]]
        out, seen, work = set(), set(), [f]
        while work:
            g = work.pop()
            for c in calls(g["body"]):
                out.add(c["fn"])
                h = self.facts.fns.get(c["fn"]) if isinstance(self.facts.fns, dict) else None
                if h is None:
                    h = self.fn(c["fn"])
                if h is not None and h.get("body") is not None and h["vis"] != "pub" and h["path"] not in seen and h["path"] != f["path"]:
                    seen.add(h["path"])
                    work.append(h)
        memo[f["path"]] = out
        return out

    def rle_fns(self):
        """the run-length merge: a function that looks at the last entry of the list it builds (`last_mut()`, `last()`, or a `[.., last]`
        slice pattern) and pushes `Entry { .. }`"""
        out = []
        for f in self.user_fns():
            if not self.has_struct(f, "directory::Entry"):
                continue
            looks_last = any(c["fn"].endswith(("::last_mut", "::last")) for c in calls(f["body"]))
            if not looks_last:
                for n in walk(f["body"]):
                    pats = []
                    if n["k"] == "Match":
                        pats = [a["pat"] for a in n["arms"]]
                    elif n["k"] in ("Let", "LetCond") and n.get("pat") is not None:
                        pats = [n["pat"]]
                    for pt in pats:
                        q = pt
                        while q is not None and q.get("k") in ("RefPat", "GuardPat"):
                            q = q.get("pat")
                        if q is not None and q.get("k") == "SlicePat" and q.get("rest") and len(q["pats"]) - q.get("nb", 0) - 1 >= 1:
                            looks_last = True
            # … and extends a run: it assigns to a `.run_length` field
            bumps = any((n["k"] == "AssignOp" and n.get("l", {}).get("k") == "Field" and n["l"].get("name") == "run_length") or
                        (n["k"] == "Assign" and n.get("l", {}).get("k") == "Field" and n["l"].get("name") == "run_length" and
                         any(m["k"] == "Field" and m.get("name") == "run_length" for m in walk(n["r"]))) for n in walk(f["body"]))
            if looks_last and bumps and any(c["fn"].endswith("Vec::<T, A>::push") for c in calls(f["body"])):
                out.append(f)
        return out

    def archive_writers(self):
        """local functions that build a `Header { .. }` and hand it to `Header::to_writer*`"""
        out = []
        for f in self.user_fns():
            if f["path"] not in self.inlinable and f["vis"] != "pub" and any(n.startswith("header::Header::to_") and "writer" in n for n in self.calls_inl(f)) and self.has_struct_inl(f, "header::Header"):
                out.append(f)
            elif f["path"] not in self.inlinable and f["vis"] == "pub" and any(c["fn"].startswith("header::Header::to_") and "writer" in c["fn"] for c in calls(f["body"])) and self.has_struct_deep(f, "header::Header"):
                out.append(f)      # (a public function that is itself the writer)
        return out

    def openers(self):
        """local functions that parse a header from a stream and build a `PMTiles { .. }`"""
        out = []
        for f in self.user_fns():
            if any(c["fn"].startswith("header::Header::from_") and "reader" in c["fn"] for c in calls(f["body"])) and self.has_struct_deep(f, "pmtiles::PMTiles"):
                out.append(f)
        return out

    def walkers(self):
        """recursive local functions that decode a directory from a stream"""
        out = []
        for f in self.user_fns():
            cs = [c["fn"] for c in calls(f["body"])]
            if f["path"] in cs and any(c.startswith("directory::Directory::from_") and "reader" in c for c in cs):
                out.append(f)
        return out

    def _factory_impls(self):
        """(direct, absorbed): Box<dyn ..>-returning local functions that match on a Compression; `absorbed` are the private ones whose only callers are
        themselves Box<dyn ..>-returning functions (thin public wrappers) — the wrapper is then the factory and the implementation is evaluated in place"""
        if "factory_impls" not in self._roles:
            direct = []
            for f in self.user_fns():
                if "Box<" in f["ret"] and "dyn " in f["ret"]:
                    for n in walk(f["body"]):
                        if n["k"] == "Match" and n["e"]["ty"].endswith("Compression"):
                            direct.append(f)
                            break
            dpaths = set(f["path"] for f in direct)
            absorbed = set()
            for f in direct:
                if f["vis"] == "pub":
                    continue
                callers = [g for g in self.user_fns() if g["path"] != f["path"] and any(c["fn"] == f["path"] for c in calls(g["body"]))]
                if callers and all("Box<" in g["ret"] and "dyn " in g["ret"] and g["path"] not in dpaths for g in callers):
                    absorbed.add(f["path"])
            self._roles["factory_impls"] = (direct, absorbed)
        return self._roles["factory_impls"]

    def codec_factories(self):
        """local functions returning Box<dyn Read|Write|AsyncRead|AsyncWrite> that match on a Compression (themselves, or through a private
        implementation function only they call)"""
        direct, absorbed = self._factory_impls()
        out = [f for f in direct if f["path"] not in absorbed]
        for g in self.user_fns():
            if "Box<" in g["ret"] and "dyn " in g["ret"] and g not in out and any(c["fn"] in absorbed for c in calls(g["body"])):
                out.append(g)
        return out


def twin_name(path):
    return path


def is_asyncish(f):
    return f["async"] or "Future<" in f["ret"]


def _pat_ctor(p, ctor):
    if p is None:
        return False
    if p["k"] == "TupleStruct" and p.get("ctor") == ctor:
        return True
    for x in p.get("pats", []) or []:
        if _pat_ctor(x, ctor):
            return True
    if isinstance(p.get("pat"), dict):
        return _pat_ctor(p["pat"], ctor)
    for f in p.get("fields", []) or []:
        if _pat_ctor(f["pat"], ctor):
            return True
    return False


# ------------------------------------------------------------------------------------------------
# semantic facts established by branch decisions, independent of the idiom used to branch
# (`if x == 0`, `match x { 0 => .., n => .. }`, `let Some(v) = o else { .. }`, `if let`, `match o { None => .., Some(v) => .. }`, guards, `!`, `&&`, `||`)

def _unmut(t):
    from rules_reader import unmut
    return unmut(t)


def _atoms(c, truth):
    if not isinstance(c, tuple) or not c:
        return
    if c[0] == "un" and c[1] == "!":
        yield from _atoms(c[2], not truth)
    elif c[0] == "bin" and c[1] == "&&":
        if truth:
            yield from _atoms(c[2], True)
            yield from _atoms(c[3], True)
    elif c[0] == "bin" and c[1] == "||":
        if not truth:
            yield from _atoms(c[2], False)
            yield from _atoms(c[3], False)
    else:
        yield c, truth


def _payload(t):
    """`Some(x)` / `Ok(x)` compared with an Option/Result value: the comparison is about the payload (None never equals Some(_))"""
    while isinstance(t, tuple) and t and t[0] == "call" and t[1] in ("core::option::Option::Some", "core::result::Result::Ok") and len(t[2]) == 1 and t[3] is None:
        t = t[2][0]
    return t


def _pat_top(p):
    """(kind, payload) of a pattern's top constructor: ('lit', n) | ('ctor', path) | ('any', None)"""
    while p is not None and p["k"] in ("RefPat", "GuardPat"):
        p = p["pat"]
    if p is None:
        return ("any", None)
    k = p["k"]
    if k == "LitPat" and "int" in p:
        return ("lit", p["int"])
    if k == "LitPat" and "bool" in p:
        return ("lit", p["bool"])
    if k == "TupleStruct":
        return ("ctor", p.get("ctor"))
    if k == "Struct":
        return ("ctor", p.get("adt"))
    if k == "PathPat":
        return ("ctor", p.get("def"))
    if k == "RangePat" and ("lo" in p or "hi" in p):
        lo = p.get("lo") or {}
        hi = p.get("hi") or {}
        return ("range", (lo.get("int") if isinstance(lo, dict) else None, hi.get("int") if isinstance(hi, dict) else None, bool(p.get("inclusive"))))
    if k == "SlicePat" and "min" in p:
        return ("slice", (p["min"], bool(p.get("rest"))))
    return ("any", None)


def _tuple_pat_facts(pat, v):
    """`match (a, b) { (0, Some(p)) => .. }`: component-wise facts of a tuple pattern against a tuple value"""
    out = []
    while pat is not None and pat.get("k") in ("RefPat", "GuardPat"):
        pat = pat["pat"]
    if pat is None or pat.get("k") != "Tuple" or not (isinstance(v, tuple) and v and v[0] == "tup"):
        return out
    for sp, comp in zip(pat["pats"], v[1]):
        kind, pay = _pat_top(sp)
        if kind == "lit":
            out.append(("eq", comp, pay))
        elif kind == "ctor":
            out.append(("variant", comp, pay, True))
    return out


def _atom_facts(c, pol):
    """facts carried by one boolean atom `c` holding with polarity `pol`"""
    out = []
    if c[0] == "bin" and c[1] in ("==", "!=", "<", "<=", ">", ">="):
        op = c[1]
        if not pol:
            op = {"==": "!=", "!=": "==", "<": ">=", "<=": ">", ">": "<=", ">=": "<"}[op]
        l, r = _payload(c[2]), _payload(c[3])
        out.append(("rel", op, l, r))
        for a, b, o in ((l, r, op), (r, l, {"<": ">", "<=": ">=", ">": "<", ">=": "<="}.get(op, op))):
            if b[0] == "c":
                n = b[1]
                if o == "==":
                    out.append(("eq", a, n))
                elif o == "!=":
                    out.append(("ne", a, n))
                elif o == ">" and n == 0:
                    out.append(("ne", a, 0))
                elif o == ">=" and n == 1:
                    out.append(("ne", a, 0))
                elif o == "<" and n == 1:
                    out.append(("eq", a, 0))
                elif o == "<=" and n == 0:
                    out.append(("eq", a, 0))
                if isinstance(a, tuple) and a[0] == "call" and a[1] == "len" and n == 0 and o in ("==", "!=", ">", "<=", "<", ">="):
                    emp = {"==": True, "<=": True, "!=": False, ">": False}.get(o)
                    if emp is not None:
                        out.append(("empty", a[2][0], emp))
    elif c[0] == "call" and c[1].endswith("::is_empty") and c[2]:
        out.append(("empty", c[2][0], pol))
    elif c[0] == "call" and c[1].endswith("::is_some") and c[2]:
        out.append(("variant", c[2][0], "core::option::Option::Some", pol))
    elif c[0] == "call" and c[1].endswith("::is_none") and c[2]:
        out.append(("variant", c[2][0], "core::option::Option::Some", not pol))
    else:
        out.append(("bool", c, pol))
    return out


def _alternatives(c, truth):
    """disjunctive normal form of `c == truth`: a list of alternatives, each a list of (atom, polarity)"""
    c = _unmut(c)
    if c[0] == "un" and c[1] == "!":
        return _alternatives(c[2], not truth)
    if c[0] == "bin" and c[1] in ("&&", "||"):
        conj = (c[1] == "&&") == truth
        l, r = _alternatives(c[2], truth), _alternatives(c[3], truth)
        if conj:
            return [a + b for a in l for b in r][:64]
        return (l + r)[:64]
    return [[(c, truth)]]


def decision_alternatives(d):
    """what is known after an `if` decision as a disjunction: a list of alternatives, each a list of facts (see decision_facts).  A decision of
    another kind has the single alternative decision_facts(d)."""
    if d.d["how"] != "if":
        return [decision_facts(d)]
    out = []
    for alt in _alternatives(d.d["cond"], d.d["outcome"] is True):
        fs = []
        for c, pol in alt:
            fs.extend(_atom_facts(c, pol))
        out.append(fs)
    return out


def rejects_because(p, upto, allowed, after=None):
    """the decision on path p (before event `upto`) every alternative of which contains a fact accepted by `allowed(fact)`; None if there is none.
    "This exit is taken only for one of the admissible reasons", in whatever boolean form the test is written."""
    for d in p.decisions(upto):
        if after is not None and d.seq <= after:
            continue
        if d.d.get("folded"):
            continue
        alts = decision_alternatives(d)
        if alts and all(any(allowed(f) for f in alt) for alt in alts):
            return d
    return None


def _range_pat_facts(v, pay, matched):
    """`lo..=hi` / `lo..hi` matched or (for a range starting at the type's minimum 0, or open below) not matched"""
    lo, hi, incl = pay
    out = []
    if matched:
        if lo is not None:
            out.append(("rel", ">=", v, ("c", lo)))
        if hi is not None:
            out.append(("rel", "<=" if incl else "<", v, ("c", hi)))
    else:
        if hi is not None and (lo is None or lo == 0):
            out.append(("rel", ">" if incl else ">=", v, ("c", hi)))
        elif hi is None and lo is not None:
            out.append(("rel", "<", v, ("c", lo)))
    return out


def _nested_pat_facts(pat, v):
    """facts about the payloads of a matched constructor pattern: `Some(Value::Object(m))` also says the payload is an Object"""
    out = []
    while pat is not None and pat.get("k") in ("RefPat", "GuardPat"):
        pat = pat["pat"]
    if pat is None or pat.get("k") != "TupleStruct":
        return out
    ctor = pat.get("ctor") or ""
    for i, sub in enumerate(pat.get("pats") or []):
        q = sub
        while q is not None and q.get("k") in ("RefPat", "GuardPat"):
            q = q["pat"]
        if q is None or q.get("k") not in ("TupleStruct", "PathPat", "Struct"):
            continue
        vv = _unmut(v)
        if isinstance(vv, tuple) and vv and vv[0] == "call" and vv[1] == ctor and vv[3] is None and i < len(vv[2]):
            subv = vv[2][i]
        elif ctor in ("core::option::Option::Some", "core::result::Result::Ok") and i == 0:
            subv = v           # Option/Result are modelled at payload level
        else:
            subv = ("proj", v, "%s.%d" % (hir.short(ctor), i))
        kind, pay = _pat_top(q)
        if kind == "ctor":
            out.append(("variant", subv, pay, True))
            out.extend(_nested_pat_facts(q, subv))
    return out


def _slice_pat_facts(v, pay, matched):
    """a slice pattern of minimum length `min` (with or without a `..` rest) matched / did not match the sequence v"""
    mn, rest = pay
    if matched:
        if mn == 0 and not rest:
            return [("empty", v, True)]
        if mn >= 1:
            return [("empty", v, False)]
    else:
        if mn == 0 and not rest:
            return [("empty", v, False)]
        if mn == 1 and rest:
            return [("empty", v, True)]
    return []


def decision_facts(d):
    """facts that hold after decision event d, as tuples:
         ('eq', term, n) ('ne', term, n)           comparisons with an integer constant
         ('variant', term, ctor_path, bool)        the value is / is not of that enum variant
         ('empty', term, bool)                     x.is_empty() / x.len() == 0
         ('rel', op, left_term, right_term)        op in < <= > >= == != (normalised to hold as written)
         ('bool', term, bool)                      any other boolean atom
    """
    out = []
    how = d.d["how"]
    v = _unmut(d.d["cond"])
    if how == "if":
        for c, pol in _atoms(v, d.d["outcome"] is True):
            out.extend(_atom_facts(c, pol))
    elif how == "match":
        arms = (d.node or {}).get("arms") or []
        i = d.d["outcome"]
        kind, pay = _pat_top(d.d.get("pat"))
        if kind == "lit":
            out.append(("eq", v, pay))
        elif kind == "ctor":
            out.append(("variant", v, pay, True))
            out.extend(_nested_pat_facts(d.d.get("pat"), v))
        elif kind == "slice":
            out.extend(_slice_pat_facts(v, pay, True))
        elif kind == "range":
            out.extend(_range_pat_facts(v, pay, True))
        out.extend(_tuple_pat_facts(d.d.get("pat"), v))
        for a in arms[:i]:
            if a.get("guard") is not None and d.d.get("fell", True):
                continue      # that arm's pattern may have matched (its guard failed)
            k2, p2 = _pat_top(a["pat"])
            if k2 == "lit":
                out.append(("ne", v, p2))
            elif k2 == "ctor":
                out.append(("variant", v, p2, False))
            elif k2 == "slice":
                out.extend(_slice_pat_facts(v, p2, False))
            elif k2 == "range":
                out.extend(_range_pat_facts(v, p2, False))
    elif how in ("letelse", "iflet"):
        kind, pay = _pat_top(d.d.get("pat"))
        if kind == "slice":
            out.extend(_slice_pat_facts(v, pay, d.d["outcome"] is True))
        if kind == "ctor":
            out.append(("variant", v, pay, d.d["outcome"] is True))
            if d.d["outcome"] is True:
                out.extend(_nested_pat_facts(d.d.get("pat"), v))
        elif kind == "lit":
            out.append(("eq" if d.d["outcome"] is True else "ne", v, pay))
    elif how == "try":
        out.append(("variant", v, "core::result::Result::Ok", d.d["outcome"] is True))
    elif how == "tryopt":
        out.append(("variant", v, "core::option::Option::Some", d.d["outcome"] is True))
    elif how == "entry":
        out.append(("variant", v, "std::collections::hash::map::Entry::Occupied", d.d["outcome"] is True))
    # Option: not Some ⇔ None
    more = []
    for f in out:
        if f[0] == "variant" and f[2] in ("core::option::Option::Some", "core::option::Option::None"):
            other = "core::option::Option::None" if f[2].endswith("Some") else "core::option::Option::Some"
            more.append(("variant", f[1], other, not f[3]))
    # `x.checked_sub(k)` (modelled at payload level as x − k) being Some ⇔ x ≥ k
    for f in out + more:
        if f[0] == "variant" and f[2] == "core::option::Option::Some":
            t = _unmut(f[1])
            if isinstance(t, tuple) and t and t[0] == "bin" and t[1] == "-" and isinstance(t[3], tuple) and t[3] and t[3][0] == "c" and t[3][1] >= 1:
                k = t[3][1]
                if f[3]:
                    more.append(("rel", ">=", t[2], t[3]))
                    more.append(("ne", t[2], 0))
                else:
                    more.append(("rel", "<", t[2], t[3]))
                    if k == 1:
                        more.append(("eq", t[2], 0))
    # `s.first()` / `s.last()` / `s.get(0)` (or its payload-level form s[0]) being Some ⇔ the sequence is not empty
    for f in out + more:
        if f[0] == "variant" and f[2] == "core::option::Option::Some":
            t = _unmut(f[1])
            seq = None
            if isinstance(t, tuple) and t and t[0] == "idx" and len(t) > 2 and t[2] == ("c", 0):
                seq = t[1]
            elif isinstance(t, tuple) and t and t[0] == "call" and t[1].endswith(("::first", "::last", "::first_mut", "::last_mut", "::split_first", "::split_last")) and len(t[2]) == 1:
                seq = t[2][0]
            if seq is not None:
                more.append(("empty", seq, not f[3]))
    return out + more


def path_facts(p, upto=None, after=None):
    for d in p.decisions(upto):
        if after is not None and d.seq <= after:
            continue
        for f in decision_facts(d):
            yield f, d


def knows(p, fact, upto=None, after=None):
    """the decision event that establishes `fact` on this path before event `upto`, or None"""
    for f, d in path_facts(p, upto, after):
        if f == fact:
            return d
    return None
