#!/bin/bash
# usage: run_pmlint.sh <crate dir> <out dir> <target dir> <nonce> [cargo feature args...]
set -e
CRATE="$1"; OUT="$2"; TGT="$3"; NONCE="$4"; shift 4
SYSROOT=$(rustc +nightly --print sysroot)
mkdir -p "$OUT" "$TGT"
# cargo's freshness cache would skip the wrapper: drop the workspace members' fingerprints
rm -rf "$TGT"/debug/.fingerprint/pmtiles2-* "$TGT"/debug/.fingerprint/pmcontrols-* 2>/dev/null || true
cd "$CRATE"
LD_LIBRARY_PATH="$SYSROOT/lib" PMLINT_OUT="$OUT" PMLINT_NONCE="$NONCE" RUSTFLAGS="-Awarnings" \
  CARGO_NET_OFFLINE=true RUSTC_WORKSPACE_WRAPPER=/verif/pmlint/target/release/pmlint \
  CARGO_TARGET_DIR="$TGT" cargo +nightly check --offline --lib "$@"
