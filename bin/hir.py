"""Shared helpers over the pmlint fact files (resolved, type-checked HIR exported as JSON).

Nothing here looks at source text: every predicate is over resolved def-paths, types, rustc-evaluated
constants and the structure of the HIR tree.
"""
import json
import os

TRANSPARENT = ("Try", "Await")


def _canonical_private_types(text):
    """Private types that rules address by role are given their canonical names before anything else looks at the facts, so that renaming them
    in the repository changes nothing: the tile-source enum (two tuple variants: (u64) = stored under its hash, (u64, u32) = offset/length in
    the backing reader) and the layout result (the struct holding a byte vector and a Directory)."""
    import re
    try:
        raw = json.loads(text)
    except ValueError:
        return text
    ren = []
    for a in raw.get("adts", []):
        vs = a.get("variants") or []
        if a.get("kind") == "enum" and len(vs) == 2:
            shapes = {tuple(f["ty"] for f in v["fields"]): v for v in vs}
            if set(shapes) == {("u64",), ("u64", "u32")}:
                ren.append((a["path"] + "::" + shapes[("u64",)]["name"], "tile_manager::TileManagerTile::Hash"))
                ren.append((a["path"] + "::" + shapes[("u64", "u32")]["name"], "tile_manager::TileManagerTile::OffsetLength"))
                ren.append((a["path"], "tile_manager::TileManagerTile"))
        if a.get("kind") == "struct" and len(vs) == 1:
            tys = [f["ty"] for f in vs[0]["fields"]]
            if "alloc::vec::Vec<u8>" in tys and "directory::Directory" in tys and len(tys) >= 4:
                ren.append((a["path"], "tile_manager::FinishResult"))
    # public types keep their canonical definition path wherever their (private) module lives or whatever it is called
    CANON = {"Header": "header::Header", "LatLng": "header::lat_lng::LatLng", "Compression": "header::compression::Compression", "TileType": "header::tile_type::TileType",
             "Directory": "directory::Directory", "Entry": "directory::Entry", "PMTiles": "pmtiles::PMTiles", "TileManager": "tile_manager::TileManager",
             "OffsetLength": "util::read_directories::OffsetLength", "WriteDirsOverflowStrategy": "util::write_directories::WriteDirsOverflowStrategy"}
    for a in raw.get("adts", []):
        nm = a["path"].rpartition("::")[2]
        if nm in CANON and a["path"] != CANON[nm] and not any(o == a["path"] for o, _ in ren):
            ren.append((a["path"], CANON[nm]))
    for old, new in ren:
        if old != new:
            text = re.sub(re.escape(old) + r"(?![A-Za-z0-9_])", new, text)
    return text


class Facts:
    def __init__(self, path):
        with open(path) as f:
            text = f.read()
        self.raw = json.loads(_canonical_private_types(text))
        self.path = path
        self.crate = self.raw["crate"]
        self.features = self.raw["features"]
        self.nonce = self.raw.get("nonce", "")
        self.fns = {}
        for f in self.raw["fns"]:
            self.fns[f["path"]] = f
        self.consts = {c["path"]: c for c in self.raw["consts"]}
        self.adts = {a["path"]: a for a in self.raw["adts"]}
        self.impls = self.raw["impls"]
        self.attrs = {}
        for a in self.raw["attrs"]:
            lst = [x for x in a["attrs"] if x]
            if lst:
                self.attrs.setdefault(a["path"], []).extend(lst)

    def config(self):
        return "+".join(self.features) if self.features else "default"

    def user_fns(self):
        """functions with hand-written (or attribute-macro generated) bodies; derive output is library code"""
        return [f for f in self.fns.values() if not f["derive"] and f["body"] is not None]

    def fn(self, path):
        return self.fns.get(path)

    def fn_by_suffix(self, suffix):
        out = [f for p, f in self.fns.items() if p == suffix or p.endswith("::" + suffix)]
        return out

    def const_int(self, path):
        c = self.consts.get(path)
        if c and c["value"] and "int" in c["value"]:
            return c["value"]["int"]
        return None


def rel(loc):
    """file:line:col with the /repo prefix stripped (reports are keyed without line numbers, this is for humans)"""
    for pre in ("/repo/", "/verif/controls/"):
        if loc.startswith(pre):
            return loc[len(pre):]
    # scratch copies
    i = loc.find("/src/")
    if i >= 0:
        return loc[i + 1:]
    return loc


def children(e):
    """direct sub-expressions (and statements) of a node, in evaluation order"""
    if e is None:
        return
    k = e.get("k")
    if k in ("Lit", "Path", "Local", "Continue", "ConstBlock", "Other"):
        return
    if k == "Call":
        if "f" in e:
            yield e["f"]
        for a in e["args"]:
            yield a
    elif k == "MCall":
        yield e["recv"]
        for a in e["args"]:
            yield a
    elif k in ("Bin", "Assign", "AssignOp"):
        if k == "Bin":
            yield e["l"]
            yield e["r"]
        else:
            yield e["r"]
            yield e["l"]
    elif k in ("Un", "Cast", "Try", "Await", "Ref", "Field", "Yield", "FormatArgs", "Repeat"):
        yield e["e"]
    elif k == "LetCond":
        yield e["e"]
    elif k == "If":
        yield e["c"]
        yield e["t"]
        if e["e"] is not None:
            yield e["e"]
    elif k == "Loop":
        yield e["body"]
    elif k == "While":
        yield e["c"]
        yield e["body"]
    elif k == "For":
        yield e["iter"]
        if e.get("body") is not None:
            yield e["body"]
    elif k == "Match":
        yield e["e"]
        for a in e["arms"]:
            if a["guard"] is not None:
                yield a["guard"]
            yield a["body"]
    elif k in ("Closure", "Async"):
        yield e["body"]
    elif k == "Block":
        for st in e["stmts"]:
            yield st
        if e["e"] is not None:
            yield e["e"]
    elif k == "Let":
        if e["init"] is not None:
            yield e["init"]
        if e["els"] is not None:
            yield e["els"]
    elif k in ("Semi", "Expr"):
        yield e["e"]
    elif k == "Index":
        yield e["e"]
        yield e["i"]
    elif k in ("Break", "Ret"):
        if e["e"] is not None:
            yield e["e"]
    elif k == "Struct":
        for f in e["fields"]:
            yield f["e"]
        if e["base"] is not None:
            yield e["base"]
    elif k in ("Tup", "Array"):
        for x in e["es"]:
            yield x
    else:
        raise ValueError("unknown node kind %r" % k)


def walk(e):
    """pre-order walk over every node (expressions and statements)"""
    if e is None:
        return
    stack = [e]
    while stack:
        n = stack.pop()
        yield n
        cs = list(children(n))
        stack.extend(reversed(cs))


def peel(e):
    """strip value-preserving wrappers: `?`, `.await`, `&`, `*`, single-expression blocks"""
    while e is not None:
        k = e["k"]
        if k in ("Try", "Await", "Ref"):
            e = e["e"]
        elif k == "Un" and e["op"] == "*":
            e = e["e"]
        elif k == "Block" and not e["stmts"] and e["e"] is not None:
            e = e["e"]
        elif k == "Async":
            e = e["body"]
        else:
            return e
    return e


def callee(e):
    """resolved def-path of a call / method call, else None"""
    if e is None:
        return None
    if e["k"] in ("Call", "MCall"):
        return e.get("fn")
    return None


def call_args(e):
    """all value arguments including the receiver"""
    if e["k"] == "MCall":
        return [e["recv"]] + e["args"]
    return e["args"]


def calls(e):
    for n in walk(e):
        if n["k"] in ("Call", "MCall") and n.get("fn"):
            yield n


def pat_bindings(p):
    """all (var, name) bound by a pattern"""
    if p is None:
        return
    k = p["k"]
    if k == "Bind":
        yield (p["var"], p["name"])
        if p["sub"] is not None:
            yield from pat_bindings(p["sub"])
    elif k == "Struct":
        for f in p["fields"]:
            yield from pat_bindings(f["pat"])
    elif k in ("TupleStruct", "Tuple", "Or", "SlicePat"):
        for x in p["pats"]:
            yield from pat_bindings(x)
    elif k in ("RefPat", "GuardPat"):
        yield from pat_bindings(p["pat"])


def fmt(e, depth=0):
    """compact pseudo-Rust rendering of a node, for reports and the fact viewer"""
    if e is None:
        return "_"
    if depth > 12:
        return "…"
    k = e["k"]
    d = depth + 1
    if k == "Lit":
        for key in ("int", "bool", "float", "str", "char"):
            if key in e:
                return repr(e[key]) if key == "str" else str(e[key])
        return "<lit>"
    if k == "Local":
        return e["name"]
    if k == "Path":
        c = e.get("const")
        base = e.get("def", "?").split("::")[-1]
        if c and "int" in c:
            return "%s{=%d}" % (base, c["int"])
        return base
    if k == "Call":
        f = e.get("fn") or (fmt(e["f"], d) if "f" in e else e.get("name", "?"))
        return "%s(%s)" % (short(f), ", ".join(fmt(a, d) for a in e["args"]))
    if k == "MCall":
        return "%s.%s(%s)" % (fmt(e["recv"], d), e["name"], ", ".join(fmt(a, d) for a in e["args"]))
    if k == "Bin":
        return "(%s %s %s)" % (fmt(e["l"], d), e["op"], fmt(e["r"], d))
    if k == "Un":
        return "%s%s" % (e["op"], fmt(e["e"], d))
    if k == "Cast":
        return "(%s as %s)" % (fmt(e["e"], d), e["ty"])
    if k == "Try":
        return fmt(e["e"], d) + "?"
    if k == "Await":
        return fmt(e["e"], d) + ".await"
    if k == "Ref":
        return ("&mut " if e["mut"] else "&") + fmt(e["e"], d)
    if k == "Field":
        return "%s.%s" % (fmt(e["e"], d), e["name"])
    if k == "Index":
        return "%s[%s]" % (fmt(e["e"], d), fmt(e["i"], d))
    if k == "Assign":
        return "%s = %s" % (fmt(e["l"], d), fmt(e["r"], d))
    if k == "AssignOp":
        return "%s %s= %s" % (fmt(e["l"], d), e["op"], fmt(e["r"], d))
    if k == "Struct":
        return "%s{%s}" % (short(e.get("adt", "?")), ", ".join("%s: %s" % (f["name"], fmt(f["e"], d)) for f in e["fields"]))
    if k == "Tup":
        return "(%s)" % ", ".join(fmt(x, d) for x in e["es"])
    if k == "Array":
        return "[%s]" % ", ".join(fmt(x, d) for x in e["es"])
    if k == "Repeat":
        return "[%s; %s]" % (fmt(e["e"], d), e.get("n", "?"))
    if k == "Ret":
        return "return %s" % fmt(e["e"], d)
    if k == "Break":
        return "break"
    if k == "Continue":
        return "continue"
    if k == "If":
        return "if %s {…}" % fmt(e["c"], d)
    if k == "LetCond":
        return "let %s = %s" % (fmt_pat(e["pat"]), fmt(e["e"], d))
    if k == "Match":
        return "match %s {…}" % fmt(e["e"], d)
    if k == "For":
        return "for %s in %s {…}" % (fmt_pat(e.get("pat")), fmt(e["iter"], d))
    if k == "Closure":
        return "|%s| %s" % (", ".join(fmt_pat(p) for p in e["params"]), fmt(e["body"], d))
    if k == "Block":
        if not e["stmts"] and e["e"] is not None:
            return fmt(e["e"], d)
        return "{…}"
    if k == "Async":
        return "async {…}"
    return "<%s>" % k


def fmt_pat(p):
    if p is None:
        return "_"
    k = p["k"]
    if k == "Bind":
        return p["name"]
    if k == "Wild":
        return "_"
    if k in ("Tuple",):
        return "(%s)" % ", ".join(fmt_pat(x) for x in p["pats"])
    if k == "TupleStruct":
        return "%s(%s)" % (short(p.get("ctor", "?")), ", ".join(fmt_pat(x) for x in p["pats"]))
    if k == "Struct":
        return "%s{%s}" % (short(p.get("adt", "?")), ", ".join("%s: %s" % (f["name"], fmt_pat(f["pat"])) for f in p["fields"]))
    if k == "PathPat":
        return short(p.get("def", "?"))
    if k == "RefPat":
        return "&" + fmt_pat(p["pat"])
    if k == "LitPat":
        return str(p.get("int", p.get("bool", "lit")))
    return "<%s>" % k


def short(path):
    if not isinstance(path, str):
        return "?"
    parts = path.split("::")
    return "::".join(parts[-2:]) if len(parts) >= 2 else path


def dump(e, ind=0, out=None):
    """multi-line structural dump (fact viewer)"""
    out = out if out is not None else []
    pad = "  " * ind
    if e is None:
        return out
    k = e["k"]
    if k == "Block":
        for st in e["stmts"]:
            dump(st, ind, out)
        if e["e"] is not None:
            out.append(pad + "=> " + fmt(e["e"]))
            _dump_nested(e["e"], ind + 1, out)
        return out
    if k == "Let":
        out.append("%slet %s = %s%s   [%s]" % (pad, fmt_pat(e["pat"]), fmt(e["init"]), " else {…}" if e["els"] else "", rel(e.get("loc", ""))))
        _dump_nested(e["init"], ind + 1, out)
        if e["els"]:
            out.append(pad + "  else:")
            dump(e["els"], ind + 2, out)
        return out
    if k in ("Semi", "Expr"):
        out.append("%s%s;   [%s]" % (pad, fmt(e["e"]), rel(e["e"].get("loc", ""))))
        _dump_nested(e["e"], ind + 1, out)
        return out
    out.append(pad + fmt(e))
    _dump_nested(e, ind + 1, out)
    return out


def _dump_nested(e, ind, out):
    """expand control-flow constructs found inside an expression"""
    if e is None:
        return
    pad = "  " * ind
    for n in _shallow_ctrl(e):
        k = n["k"]
        if k == "If":
            out.append("%sif %s:" % (pad, fmt(n["c"])))
            dump(n["t"], ind + 1, out)
            if n["e"] is not None:
                out.append(pad + "else:")
                dump(n["e"], ind + 1, out)
        elif k == "Match":
            out.append("%smatch %s:" % (pad, fmt(n["e"])))
            for a in n["arms"]:
                out.append("%s  %s%s =>" % (pad, fmt_pat(a["pat"]), (" if " + fmt(a["guard"])) if a["guard"] else ""))
                dump(a["body"], ind + 2, out)
        elif k == "For":
            out.append("%sfor %s in %s:" % (pad, fmt_pat(n.get("pat")), fmt(n["iter"])))
            dump(n.get("body"), ind + 1, out)
        elif k == "While":
            out.append("%swhile %s:" % (pad, fmt(n["c"])))
            dump(n["body"], ind + 1, out)
        elif k == "Loop":
            out.append(pad + "loop:")
            dump(n["body"], ind + 1, out)
        elif k == "Block":
            out.append(pad + "{")
            dump(n, ind + 1, out)
            out.append(pad + "}")
        elif k == "Async":
            out.append(pad + "async {")
            dump(n["body"], ind + 1, out)
            out.append(pad + "}")
        elif k == "Closure":
            out.append("%sclosure |%s|:" % (pad, ", ".join(fmt_pat(p) for p in n["params"])))
            dump(n["body"], ind + 1, out)


def _shallow_ctrl(e):
    """control-flow nodes reachable from e without crossing another control-flow node"""
    CTRL = ("If", "Match", "For", "While", "Loop", "Async", "Closure")
    if e["k"] in CTRL or (e["k"] == "Block" and (e["stmts"] or e["e"] is None)):
        yield e
        return
    for c in children(e):
        if c is None:
            continue
        if c["k"] in ("Let", "Semi", "Expr"):
            continue
        yield from _shallow_ctrl(c)


if __name__ == "__main__":
    import sys
    facts = Facts(sys.argv[1])
    for name in sys.argv[2:]:
        for f in facts.fn_by_suffix(name):
            print("fn %s  [%s]%s" % (f["path"], rel(f["loc"]), " async" if f["async"] else ""))
            for p in f["params"]:
                print("   param %s : %s" % (fmt_pat(p["pat"]), p["ty"]))
            print("   -> " + f["ret"])
            print("\n".join(dump(f["body"], 1)))
            print()
