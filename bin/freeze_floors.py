#!/usr/bin/env python3
"""Record, per property / rule / feature config, how many rule instances were evaluated on the current tree.
Run by hand after the instances were confirmed by reading; check.py fails closed when a later run finds fewer."""
import json, os, sys
sys.path.insert(0, os.path.dirname(os.path.abspath(__file__)))
import engine, registry
from rulebase import Ctx
from check import run_rules

facts = engine.build_facts("/repo", ["all", "default", "serde", "async"])
out = {}
for pid in sorted(registry.PROPERTIES):
    notes = []
    obs, _ = run_rules(pid, facts, notes)
    per = {}
    seen = set()
    for o in obs:
        if o.rule in ("R-XFER", "R-NO-UNWRAP") and not o.fn.startswith("<"):
            continue
        k = (o.cfg,) + o.key()
        if k in seen:
            continue
        seen.add(k)
        per.setdefault(o.rule, {}).setdefault(o.cfg, 0)
        per[o.rule][o.cfg] += 1
    # inventory-style rules (one instance per call site in the crate) tolerate small refactors: floor at a fraction of today's count
    for r, frac in (("R-RESULT-USED", 0.6), ("R-XFER-SITE", 0.6), ("R-TAINT-ARITH", 0.5)):
        if r in per:
            per[r] = {c: int(n * frac) for c, n in per[r].items()}
    # sites of these inventories disappear when code gets safer (an index loop replaced by an iterator, down to none at all): no floor on /repo;
    # the rules are kept alive by their controls (bad_index_*/bad_alloc_* in /verif/controls must be reported on every run)
    for r in ("R-TAINT-INDEX", "R-TAINT-ALLOC"):
        per.pop(r, None)
    # every other rule: at least half of the sites confirmed today (refactors merge and split sites; a rule that loses its anchor reports
    # "anchor not found" by itself, the floor only guards against a rule silently matching almost nothing)
    for r in per:
        if r not in ("R-RESULT-USED", "R-XFER-SITE", "R-TAINT-ARITH", "R-TAINT-INDEX", "R-TAINT-ALLOC"):
            per[r] = {c: max(1, n // 2) for c, n in per[r].items()}
    out[pid] = per
    bad = [o for o in obs if not o.ok]
    print(pid, {r: c for r, c in per.items()}, "violations:", len(set(o.key() for o in bad)), notes[:1])
json.dump(out, open(os.path.join(os.path.dirname(os.path.abspath(__file__)), "floors.json"), "w"), indent=1, sort_keys=True)
