#!/usr/bin/env python3
"""Regenerate /verif/MANIFEST.json from the registry (so the manifest cannot drift from what the checks do)."""
import json, os, subprocess, sys
sys.path.insert(0, os.path.dirname(os.path.abspath(__file__)))
import registry

VERIF = os.path.dirname(os.path.dirname(os.path.abspath(__file__)))
fix_commits = [l.split()[0] for l in subprocess.check_output(["git", "-C", "/repo", "log", "--format=%h %s"], text=True).splitlines() if " fix:" in " " + l]
DESIGN_REF = {"C%02d" % i: "DESIGN.md §4 C%02d" % i for i in range(1, 21)}
TECH = {
    "C01": "affine stream-position dataflow + field-map agreement over resolved HIR (rustc_private driver)",
    "C02": "table agreement with the v3 spec oracle (ADT/attribute facts) + affine stream model + path/event rules",
    "C03": "structured-path analysis of opener/walker/decoder over resolved HIR; affine address rules",
    "C04": "typestate-style guard/pairing rules on the store mutators over structured paths",
    "C05": "sibling/table agreement of decoder and encoder with the spec's column table; affine offset rule",
    "C06": "affine stream-position dataflow; guard-dominates-exit rule with comparison normalisation",
    "C07": "control-dependence (guard dominates conversion) with one-level interprocedural predicate expansion",
    "C08": "taint (dependence) analysis + width domain + guard recognition + reasoned allow-table; call-graph recursion bound",
    "C09": "derived byte-layout vs spec table (rustc ADT facts + expanded-AST attributes); cast dataflow for rounding",
    "C10": "path/event pairing and ordering rules on the layout loop; missing-dependence rule on run extension",
    "C11": "guard-dominates-insert and comparison normalisation over structured paths; call-graph forwarding",
    "C12": "structural isomorphism of sync/async HIR bodies modulo a twin table; effect-skeleton comparison; factory agreement",
    "C13": "who-may-call rule over resolved callees (no short-transfer / poll API) + trait-impl inventory",
    "C14": "factory agreement table (codec family/direction per variant) + one-shot helper path rule",
    "C15": "error-discipline lint over resolved call sites (result fates) + must-follow rule for codec finalisation",
    "C16": "order-taint (hash iteration must pass an ascending sort) + hash-value flow + cargo feature resolution",
    "C17": "event-ordering rules (first effect / last write effect) on every success path of both writer twins",
    "C18": "affine stream-position dataflow with symbolic start position P",
    "C19": "guard-dominates-effect rules; Value::Object pattern rule; factory Unknown⇒Err and who-may-construct rule",
    "C20": "call-graph reachability + per-function read summaries (fixed/bounded/seek-bounded/unbounded)",
}
checks = []
for pid in sorted(registry.PROPERTIES):
    sp = registry.PROPERTIES[pid]
    checks.append({
        "property_id": pid,
        "quick_cmd": "python3 bin/check.py %s --tier quick" % pid,
        "thorough_cmd": "python3 bin/check.py %s --tier thorough" % pid,
        "evidence_file": "/verif/evidence/%s.json" % pid,
        "replay_cmd_template": "python3 bin/check.py %s --replay {path}" % pid,
        "engine": "pmlint+absint",
        "level_claimed": {
            "category": "other",
            "text": "Static necessary-condition rules over the compiler-resolved program, evaluated on every structured path of every relevant function in both "
                    "feature configurations (incl. the async code the test suite never compiles). Decides: " + "; ".join(sp["decides"]) + ". It does NOT decide: " + "; ".join(sp["does_not_decide"]) + ".",
            "design_ref": DESIGN_REF[pid],
        },
        "level_note": "Trusted: rustc resolution/typeck/const-eval; the external effect model (DESIGN §3.6); library contracts (looping transfers, take bounds, codecs and deku "
                      "return errors); spec transcription /verif/spec/v3.json. A pass means every listed structural obligation is discharged, not that the behavioural statement is proved.",
        "technique": TECH[pid],
    })
m = {
    "version": 1,
    "setup_cmd": "bash bin/setup.sh",
    "hooks": {
        "guard": "--cfg pmtiles_rs_verif",
        "enable": "not used: static analysis reads /repo's source through a rustc_private driver (RUSTC_WORKSPACE_WRAPPER under cargo +nightly check); no guarded code exists in /repo",
        "baseline_off_cmd": "cd /repo && cargo test --workspace --no-fail-fast --offline",
        "source_commits": fix_commits[::-1],
        "add_only": True,
    },
    "engines": [
        {"name": "pmlint", "path": "pmlint/", "serves_properties": sorted(registry.PROPERTIES), "kind_free_text": "rustc_private driver exporting resolved, type-checked HIR, ADT layouts, rustc-evaluated constants, trait impls and expanded-AST attributes as JSON facts"},
        {"name": "absint", "path": "bin/absint.py", "serves_properties": sorted(registry.PROPERTIES), "kind_free_text": "structured path enumeration + affine/symbolic evaluation + stream-position model + effect summaries over the facts (static; no execution, no solver)"},
        {"name": "rules", "path": "bin/rules_*.py", "serves_properties": sorted(registry.PROPERTIES), "kind_free_text": "repository-specific rules (DESIGN §4), floors, known-findings subtraction"},
        {"name": "controls", "path": "controls/", "serves_properties": sorted(registry.PROPERTIES), "kind_free_text": "violating/compliant twin snippets every rule is run on at each check"},
        {"name": "mutants", "path": "mutants/", "serves_properties": sorted(registry.PROPERTIES), "kind_free_text": "stored property-breaking patches replayed against a scratch copy of the current tree in the thorough tier (checker self-test)"},
    ],
    "checks": checks,
    "notes": "All twenty properties are claimed at level `other` through named structural necessary conditions; the behavioural remainder of each is listed under does_not_decide in its evidence file and in DESIGN.md §4. "
             "source_commits lists the unguarded `fix:` commits (genuine defects F1–F8 and F11); no hook commits exist.",
    "not_applicable": [],
}
json.dump(m, open(os.path.join(VERIF, "MANIFEST.json"), "w"), indent=1)
print("wrote MANIFEST.json with %d checks; fix commits: %s" % (len(checks), fix_commits[::-1]))
