"""Header rules (C09, C02, C17, C13, C20): R-HDR-LAYOUT, R-HDR-REJECT, R-HDR-IO, R-ROUND.

The deku derive attributes come from the expanded AST (pmlint `attrs`), the ADT shapes and discriminants from rustc, the byte
offsets are derived here and compared entry by entry with the specification table in /verif/spec/v3.json.
"""
import re

from rulebase import *
from rules_writer import no_anchor, struct_field
from rules_reader import unmut, is_call_to
from rules_dir import SPEC

HDR = "header::Header"
WIDTH = {"u8": 1, "u16": 2, "u32": 4, "u64": 8, "i8": 1, "i16": 2, "i32": 4, "i64": 8}


def deku_kv(attr_list):
    """parse `#[deku(a = "x", b = 8)]` strings into a dict"""
    out = {}
    for s in attr_list or []:
        m = re.match(r"#\[deku\((.*)\)\]\s*$", s.strip(), re.S)
        if not m:
            continue
        body = m.group(1)
        for km in re.finditer(r'(\w+)\s*=\s*(b?"(?:[^"\\]|\\.)*"|[^,]+)', body):
            v = km.group(2).strip()
            out[km.group(1)] = v
    return out


def unq(v):
    if v is None:
        return None
    v = v.strip()
    if v.startswith('b"'):
        return v[2:-1]
    if v.startswith('"'):
        return v[1:-1]
    return v


def field_width(ctx, fld, attrs):
    """bytes a Header field occupies on the wire, derived from its type and deku attributes; None if it cannot be derived"""
    ty = fld["ty"]
    kv = deku_kv(attrs)
    if ty in WIDTH:
        if "bits" in kv or "bytes" in kv:
            return None
        return WIDTH[ty], ty
    if ty == "bool":
        if unq(kv.get("bits")) == "8" or unq(kv.get("bytes")) == "1":
            return 1, "bool"
        return None   # deku's default bool is one *bit*... the header needs a whole byte
    adt = ctx.facts.adts.get(ty)
    if adt is None:
        return None
    akv = deku_kv(ctx.facts.attrs.get(ty))
    if adt["kind"] == "enum":
        t = unq(akv.get("type")) or unq(akv.get("id_type"))
        if t in WIDTH and all(not v["fields"] for v in adt["variants"]):
            return WIDTH[t], ty
        return None
    # struct: sum of its fields
    total = 0
    for sub in adt["variants"][0]["fields"]:
        sattrs = ctx.facts.attrs.get(ty + "::" + sub["name"])
        skv = deku_kv(sattrs)
        if "reader" in skv or "writer" in skv:
            w = custom_codec_width(ctx, ty, skv)
            if w is None:
                return None
            total += w
        else:
            r = field_width(ctx, sub, sattrs)
            if r is None:
                return None
            total += r[0]
    return total, ty


def custom_codec_width(ctx, adt_path, kv):
    """width of a field with custom reader/writer: both must move exactly one primitive integer of the same type"""
    rd = re.match(r"Self::(\w+)\(", unq(kv.get("reader", "")) or "")
    wr = re.match(r"Self::(\w+)\(", unq(kv.get("writer", "")) or "")
    if not rd or not wr:
        return None
    rf = ctx.fn(adt_path + "::" + rd.group(1))
    wf = ctx.fn(adt_path + "::" + wr.group(1))
    if rf is None or wf is None:
        return None
    rt = [c.get("resolved") or c["fn"] for c in calls(rf["body"]) if c["fn"] == "deku::DekuRead::read"]
    wt = [c.get("resolved") or c["fn"] for c in calls(wf["body"]) if c["fn"] == "deku::DekuWrite::write"]
    if len(rt) != 1 or len(wt) != 1:
        return None
    m1 = re.search(r"for (\w+)>::read", rt[0])
    m2 = re.search(r"for (\w+)>::write", wt[0])
    if not m1 or not m2 or m1.group(1) != m2.group(1) or m1.group(1) not in WIDTH:
        return None
    return WIDTH[m1.group(1)]


def r_hdr_layout(ctx):
    obs = []
    adt = ctx.facts.adts.get(HDR)
    if adt is None:
        return no_anchor("R-HDR-LAYOUT", "struct header::Header")
    sattrs = deku_kv(ctx.facts.attrs.get(HDR))
    spec = SPEC["header"]
    magic = unq(sattrs.get("magic"))
    obs.append(Ob("R-HDR-LAYOUT", HDR, "magic", magic == spec["magic"], "struct-level magic = %r (spec %r)" % (magic, spec["magic"]), rel(adt["loc"])))
    obs.append(Ob("R-HDR-LAYOUT", HDR, "endianness", unq(sattrs.get("endian")) == spec["endian"], "struct-level endian = %r" % unq(sattrs.get("endian")), rel(adt["loc"])))
    off = len(magic or "")
    spec_fields = [f for f in spec["fields"] if f["name"] != "magic"]
    fields = adt["variants"][0]["fields"]
    obs.append(Ob("R-HDR-LAYOUT", HDR, "field count", len(fields) == len(spec_fields), "%d fields (spec %d)" % (len(fields), len(spec_fields)), rel(adt["loc"])))
    for i, sf in enumerate(spec_fields):
        if i >= len(fields):
            break
        fld = fields[i]
        r = field_width(ctx, fld, ctx.facts.attrs.get(HDR + "::" + fld["name"]))
        w = r[0] if r else None
        ok = fld["name"] == sf["name"] and w == sf["bytes"] and off == sf["offset"]
        kind_ok = True
        if sf["type"] == "compression":
            kind_ok = fld["ty"] == "header::compression::Compression"
        elif sf["type"] == "tile_type":
            kind_ok = fld["ty"] == "header::tile_type::TileType"
        elif sf["type"] == "position":
            kind_ok = fld["ty"] == "header::lat_lng::LatLng"
        elif sf["type"] in WIDTH or sf["type"] == "bool":
            kind_ok = fld["ty"] == sf["type"]
        obs.append(Ob("R-HDR-LAYOUT", HDR, "field #%d %s" % (i, sf["name"]), ok and kind_ok,
                      "declared `%s: %s` → %s bytes at offset %d (spec: %s, %d bytes at offset %d)" % (fld["name"], fld["ty"], w, off, sf["name"], sf["bytes"], sf["offset"]), rel(adt["loc"])))
        off += w or 0
    hb = ctx.facts.const_int("header::HEADER_BYTES")
    obs.append(Ob("R-HDR-LAYOUT", HDR, "total size", off == spec["total_bytes"] and hb == spec["total_bytes"], "derived size %d, HEADER_BYTES = %s (spec %d)" % (off, hb, spec["total_bytes"]), rel(adt["loc"])))
    # position = longitude then latitude
    ll = ctx.facts.adts.get("header::lat_lng::LatLng")
    names = [f["name"] for f in ll["variants"][0]["fields"]] if ll else []
    obs.append(Ob("R-HDR-LAYOUT", "header::lat_lng::LatLng", "position order", names == spec["position"]["order"], "fields %s (spec %s)" % (names, spec["position"]["order"]), rel(ll["loc"]) if ll else ""))
    # the custom codec of each coordinate uses the field it is attached to
    for n in names:
        kv = deku_kv(ctx.facts.attrs.get("header::lat_lng::LatLng::" + n))
        w = unq(kv.get("writer", "")) or ""
        obs.append(Ob("R-HDR-LAYOUT", "header::lat_lng::LatLng", "writer of %s encodes self.%s" % (n, n), ("self.%s" % n) in w and w.count("self.") == 1, "writer = %s" % w, rel(ll["loc"]) if ll else ""))
    # enum code sets
    for path, key in (("header::compression::Compression", "compression_codes"), ("header::tile_type::TileType", "tile_type_codes")):
        a = ctx.facts.adts.get(path)
        got = {v["name"]: v["discr"] for v in a["variants"]} if a else {}
        obs.append(Ob("R-HDR-LAYOUT", path, "code set", got == SPEC[key], "discriminants %s (spec %s)" % (got, SPEC[key]), rel(a["loc"]) if a else ""))
    return obs


def r_hdr_reject(ctx):
    obs = []
    adt = ctx.facts.adts.get(HDR)
    if adt is None:
        return no_anchor("R-HDR-REJECT", "struct header::Header")
    sattrs = deku_kv(ctx.facts.attrs.get(HDR))
    obs.append(Ob("R-HDR-REJECT", HDR, "wrong magic rejected (deku magic attribute)", unq(sattrs.get("magic")) == SPEC["header"]["magic"], "magic = %r" % unq(sattrs.get("magic")), rel(adt["loc"])))
    kv = deku_kv(ctx.facts.attrs.get(HDR + "::spec_version"))
    obs.append(Ob("R-HDR-REJECT", HDR, "version other than 3 rejected (assert_eq on spec_version)", unq(kv.get("assert_eq")) == "3", "spec_version attributes: %s" % kv, rel(adt["loc"])))
    for path, key in (("header::compression::Compression", "compression_codes"), ("header::tile_type::TileType", "tile_type_codes")):
        a = ctx.facts.adts.get(path)
        akv = deku_kv(ctx.facts.attrs.get(path))
        got = {v["name"]: v["discr"] for v in a["variants"]} if a else {}
        vattrs = [x for v in (a["variants"] if a else []) for x in (ctx.facts.attrs.get(path + "::" + v["name"]) or []) if "deku" in x]
        ok = unq(akv.get("type")) == "u8" and set(got.values()) == set(SPEC[key].values()) and not vattrs
        obs.append(Ob("R-HDR-REJECT", path, "unknown code has no variant (u8-tagged enum with exactly the spec's codes, no catch-all)", ok,
                      "type = %s, codes = %s, per-variant deku attributes: %s" % (unq(akv.get("type")), sorted(got.values()), vattrs), rel(a["loc"]) if a else ""))
    return obs


def hdr_readers(ctx):
    return [f for f in ctx.user_fns() if (f.get("self_ty") or "") == HDR and any(c["fn"] in ("std::io::Read::read_exact", "futures_util::io::AsyncReadExt::read_exact", "std::io::Read::read", "futures_util::io::AsyncReadExt::read", "std::io::Read::read_to_end", "futures_util::io::AsyncReadExt::read_to_end") for c in calls(f["body"]))]


def hdr_writers(ctx):
    return [f for f in ctx.user_fns() if (f.get("self_ty") or "") == HDR and any(c["fn"] in ("std::io::Write::write_all", "futures_util::io::AsyncWriteExt::write_all", "std::io::Write::write", "futures_util::io::AsyncWriteExt::write") for c in calls(f["body"]))]


def r_hdr_io(ctx):
    obs = []
    rs, ws = hdr_readers(ctx), hdr_writers(ctx)
    if not rs or not ws:
        return no_anchor("R-HDR-IO", "Header stream reader / writer")
    for f in rs:
        fn = f["path"]
        fa = ctx.fa(f)
        for p in fa.paths:
            if p.exit not in ("ok", "tail"):
                continue
            effs = [e for e in p.events if e.kind == "call" and any(k in ("read", "unknown", "seek") for k, _ in e.d["effects"])]
            ok = len(effs) == 1 and effs[0].d["fn"].endswith("::read_exact")
            bufty = ""
            if ok:
                node = effs[0].d["arg_nodes"][1]
                bufty = node["e"]["ty"] if node["k"] == "Ref" else node["ty"]
                ok = bufty == "[u8; 127]"
            obs.append(Ob("R-HDR-IO", fn, "exactly one read: read_exact into [u8; 127]", ok, "stream effects: %s; buffer type %s" % ([e.d["fn"].split("::")[-1] for e in effs], bufty), rel(f["loc"])))
            if len(effs) == 1:
                # the 127 bytes are taken from the caller's stream itself: a buffering wrapper around it would consume its read-ahead as well
                direct = effs[0].d.get("direct")
                obs.append(Ob("R-HDR-IO", fn, "the header is read from the given stream itself, not through a buffering wrapper", direct in set(fa.params.values()),
                              "read_exact addresses %s" % ("the stream parameter" if direct in set(fa.params.values()) else "`%s`, a local wrapper" % fa.var_names.get(direct, direct)),
                              effs[0].loc(), only=("C09", "C20")))
            parses = [e for e in p.events if e.kind == "call" and e.d["fn"] == "deku::DekuRead::read" and HDR in (e.d.get("resolved") or "")]
            ok_p = len(parses) == 1 and effs and any(t == unmut(effs[0].d["args"][1]) for t in subterms(unmut(parses[0].d["args"][0]))) if effs else False
            obs.append(Ob("R-HDR-IO", fn, "parses exactly the bytes read with Header's DekuRead", bool(ok_p), "parse calls: %d" % len(parses), rel(f["loc"])))
            v = unmut(p.value)
            if is_call_to(v, lambda s: s == "core::result::Result::Ok") and v[2]:
                v = v[2][0]
            ok_v = bool(parses) and v == ("proj", unmut(parses[0].d["ret"]), 1)
            obs.append(Ob("R-HDR-IO", fn, "returns the parsed header", ok_v, "returns %s" % tstr(v)[:100], rel(f["loc"])))
    # byte-slice entry points of the header (from_bytes): either they hand the whole job to a stream reader over the slice, or every refusal of
    # their own is justified by "fewer than 127 bytes" — a complete 127-byte header must parse
    hb = SPEC["header"]["bytes"] if "bytes" in SPEC.get("header", {}) else 127
    rpaths = set(f["path"] for f in rs)
    for f in ctx.user_fns():
        if f.get("self_ty") != HDR or f["vis"] != "pub" or f["path"] in rpaths or "Result<" not in f["ret"] or HDR not in f["ret"]:
            continue
        if not f["params"] or "u8" not in (f["params"][0].get("ty") or ""):
            continue
        fa = ctx.fa(f)
        for p in fa.paths:
            if p.exit != "err" or (isinstance(p.value, tuple) and p.value and p.value[0] == "errprop"):
                continue

            def short(fct):
                if fct[0] != "rel" or fct[1] not in ("<", "<=", ">", ">="):
                    return False
                op, l, r = fct[1], unmut(fct[2]), unmut(fct[3])
                if r[0] != "c":
                    op, l, r = {"<": ">", "<=": ">=", ">": "<", ">=": "<="}[op], r, l
                if r[0] != "c" or not any(is_call_to(t, lambda s_: s_ == "len" or s_.endswith("::len")) for t in subterms(l)):
                    return False
                return (op == "<" and r[1] <= hb) or (op == "<=" and r[1] < hb)
            d = rejects_because(p, None, short)
            ex = [e for e in p.events if e.kind == "exit"]
            obs.append(Ob("R-HDR-IO", f["path"], "a byte slice is refused only for being shorter than 127 bytes", d is not None,
                          "refusal justified by its length test" if d is not None else "an error exit that `len < 127` does not account for (a complete 127-byte header must parse)",
                          ex[-1].loc() if ex else rel(f["loc"]), only=("C09",)))
    for f in ws:
        fn = f["path"]
        fa = ctx.fa(f)
        for p in fa.paths:
            if p.exit not in ("ok", "tail"):
                continue
            params = set(fa.params.values())
            wr = [e for e in p.events if e.kind == "call" and any(k in ("write", "unknown") and (ks & params) for k, ks in e.d["effects"])]
            other = [e for e in p.events if e.kind == "call" and any(k in ("seek", "read") and (ks & params) for k, ks in e.d["effects"])]
            ok = len(wr) == 1 and wr[0].d["fn"].endswith("::write_all") and not other
            obs.append(Ob("R-HDR-IO", fn, "exactly one write: write_all of the serialised header", ok, "write effects: %s" % [e.d["fn"].split("::")[-1] for e in wr], rel(f["loc"])))
            if ok:
                buf = unmut(wr[0].d["args"][1])
                ser = [e for e in p.events if e.kind == "call" and e.d["fn"] in ("deku::DekuWrite::write", "deku::DekuContainerWrite::to_bytes") and HDR in (e.d.get("resolved") or "")]
                ok_b = False
                if len(ser) == 1:
                    s = ser[0]
                    if s.d["fn"].endswith("to_bytes"):
                        ok_b = buf == unmut(s.d["ret"]) and unmut(s.d["args"][0]) == V("param:self")
                    else:
                        tgt = unmut(s.d["args"][1])
                        ok_b = unmut(s.d["args"][0]) == V("param:self") and any(t == tgt for t in subterms(buf)) and s.seq < wr[0].seq
                obs.append(Ob("R-HDR-IO", fn, "the written buffer is Header's DekuWrite output of self", ok_b, "buffer = %s" % tstr(buf)[:100], wr[0].loc()))
    return obs


def r_round(ctx):
    obs = []
    ll = "header::lat_lng::LatLng"
    kv = deku_kv(ctx.facts.attrs.get(ll + "::longitude"))
    rd = re.match(r"Self::(\w+)\(", unq(kv.get("reader", "")) or "")
    wr = re.match(r"Self::(\w+)\(", unq(kv.get("writer", "")) or "")
    if not rd or not wr:
        return no_anchor("R-ROUND", "custom coordinate reader/writer named in LatLng's deku attributes")
    rf, wf = ctx.fn(ll + "::" + rd.group(1)), ctx.fn(ll + "::" + wr.group(1))
    if rf is None or wf is None:
        return no_anchor("R-ROUND", "coordinate codec functions %s / %s" % (rd.group(1), wr.group(1)))
    factor = SPEC["header"]["coordinate_factor"]
    fa = ctx.fa(wf)
    n = 0
    for p in fa.paths:
        for e in p.events:
            if e.kind == "cast" and e.d["frm"] in ("f64", "f32") and e.d["to"] in ("i32",):
                n += 1
                v = unmut(e.d["v"])
                is_round = is_call_to(v, lambda s: s.endswith("::round") or s.endswith("::round_ties_even")) and len(v[2]) == 1
                inner = v[2][0] if is_round else v
                fparams = [V("param:" + n) for n, prm in zip(fa.param_names, wf["params"]) if (prm.get("ty") or "") == "f64"]
                ok_mul = isinstance(inner, tuple) and inner[0] == "bin" and inner[1] == "*" and len(fparams) == 1 and {inner[2], inner[3]} == {fparams[0], ("lit", "float", repr(float(factor)))}
                obs.append(Ob("R-ROUND", wf["path"], "degrees × 1e7 is rounded to nearest before the integer cast", is_round and ok_mul,
                              "cast operand = %s (`as i32` truncates toward zero: an unrounded 20.999… becomes 20)" % tstr(v)[:100], e.loc()))
                wv = [c for c in p.events if c.kind == "call" and c.d["fn"] == "deku::DekuWrite::write"]
                ok_w = len(wv) == 1 and unmut(wv[0].d["args"][0])[0] == "cast" and unmut(wv[0].d["args"][0])[2] == e.d["v"] or (len(wv) == 1 and unmut(unmut(wv[0].d["args"][0])[2]) == v)
                obs.append(Ob("R-ROUND", wf["path"], "the rounded integer is what gets encoded", bool(ok_w), "encoded %s" % (tstr(unmut(wv[0].d["args"][0]))[:100] if wv else "nothing"), e.loc()))
    if n == 0:
        obs.append(Ob("R-ROUND", wf["path"], "float→i32 conversion", False, "no float→i32 cast found in the coordinate writer", rel(wf["loc"])))
    fa = ctx.fa(rf)
    for p in fa.paths:
        if p.exit not in ("ok", "tail"):
            continue
        v = unmut(p.value)
        ok = False
        if is_call_to(v, lambda s: s == "core::result::Result::Ok") and v[2]:
            v = v[2][0]
        if isinstance(v, tuple) and v and v[0] == "tup" and len(v[1]) == 2:
            val = v[1][1]
            if val[0] == "bin" and val[1] == "/" and val[3] == ("lit", "float", repr(float(factor))):
                src = val[2]
                ok = src[0] in ("call", "cast")
        obs.append(Ob("R-ROUND", rf["path"], "decoded value = stored i32 / 1e7 (same constant as the encoder)", ok, "returns %s" % tstr(v)[:120], rel(rf["loc"])))
    c = ctx.facts.consts.get("header::lat_lng::LAT_LONG_FACTOR")
    return obs
