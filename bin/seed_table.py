#!/usr/bin/env python3
"""Regenerate the table of seeded changes in DESIGN.md (§10) from /verif/seeded/*/meta.json."""
import json, os, re
V = os.path.dirname(os.path.dirname(os.path.abspath(__file__)))
SUMMARY = {
"C01-s1": "leaf strategy: all_entries.chunks(n) → chunks_exact(n): the trailing partial leaf is dropped; needs a spilling archive whose entry count is not a multiple of 4096",
"C02-s1": "MAX_ROOT_DIR_LENGTH = 16*1024: a root of 16258..16384 bytes is accepted and ends past the first 16 KiB; needs ~4064..4095 uncompressed entries",
"C03-s1": "walker passes the absolute leaf offset instead of the leaf-section base to nested leaves; needs a 3-level directory tree",
"C04-s1": "add_tile registers the id in ids_by_hash before remove_tile; needs add(i,X); add(i,X); add(j,X); remove(j); lookup(i)",
"C05-s1": "the decoded entry count itself is clamped to 65536; needs a directory with > 65536 entries",
"C06-s1": "fits-in-root test compares the absolute end position with 16384; needs the root writer called at a position ≠ 127",
"C07-s1": "is_valid_zxy accepts z <= 32; needs a lookup at zoom 32 (overflow / aliasing)",
"C08-s1": "pre-allocation cap = min(count, length as usize) with untrusted length; needs hostile count and hostile declared length together",
"C09-s1": "write_lat_lon clamps degrees to ±180; needs a stored coordinate beyond ±1.8e9",
"C10-s1": "dedup table insert only for contents shared by >1 in-memory ids; needs reader-backed + single in-memory duplicate",
"C11-s1": "per-tile contains() replaced by a clamped sub-range built from the saturated inclusive end; needs the range ..0 with tile 0 present",
"C12-s1": "read_directories_async starts the depth counter at 1; needs 3 nested leaf levels, async only",
"C13-s1": "leaf section written with write() instead of write_all(); needs a spilling archive and a writer doing short writes",
"C14-s1": "compress_all uses write() instead of write_all(); needs a large poorly compressible input",
"C15-s1": "finish(): let Ok(Some(data)) = get_tile_content(..) else { continue } swallows read errors; needs a source fault during re-write",
"C16-s1": "add_tile inserts the bytes before remove_tile; needs re-adding identical content to the same id",
"C17-s1": "tile data written after the header; needs a crash between header and data write",
"C18-s1": "leaf strategy handed SeekFrom::Start(HEADER_BYTES) instead of the remembered start; needs spill and P ≠ 0",
"C19-s1": "remove_tile before the empty-content check; needs an empty add on an occupied id",
"C20-s1": "walker passes entry.offset + entry.length as a leaf's length (take limit too large); needs ≥ 2 leaves and a compressing codec",
"C01-s2": "same mechanism as C05-s1 found independently: entry count clamped in the decoder; needs a > 65536-entry compressed root",
"C02-s2": "async directory encoder finishes with flush instead of close; needs the async writer with gzip/brotli/zstd and an independent reader",
"C03-s2": "decoder resolves offset 0 against a running max end instead of the previous entry; needs a back-reference followed by a contiguous entry",
"C04-s2": "encoder's next_byte = offset + length·run_length; needs a run followed by an entry at that coincidental offset, then save+reopen",
"C05-s2": "tile-id deltas read as u32 varints; needs a delta ≥ 2^32",
"C06-s2": "the leaf-pointer offsets are accumulated in a variable declared outside the retry loop (not reset when the leaf size doubles)",
"C07-s2": "find_z compares acc < id instead of <=: zxy(first id of zoom 32) returns 31/0/0; needs exactly that id",
"C08-s2": "walker computes entry.tile_id + run_length with plain + for a clamped loop; needs tile_id + run_length ≥ 2^64",
"C09-s2": "async header reader uses read() into a zeroed Vec; needs a short first read or truncated input, async only",
"C10-s2": "dedup key = hash of the source (offset,length) when no in-memory data exists; needs a non-deduplicated foreign archive re-written unchanged",
"C11-s2": "leaf skip uses >= instead of >; needs a range whose last id is a leaf's first id",
"C12-s2": "read_meta_data_async caps the decompressed metadata at 64 KiB with take(); needs metadata > 64 KiB, async only",
"C13-s2": "walker skips the absolute seek when the next directory starts where the previous should have ended; needs fragmented reads + compression + ≥ 2 leaves",
"C14-s2": "decompress_all uses a chunked read loop that stops on a short read; needs a compressed stream larger than the decoder's buffer",
"C15-s2": "the final seek's result is converted with .map_or(Ok(()), |_| Ok(())), swallowing a seek error",
"C16-s2": "write_lat_lon truncates instead of rounding (reverts the F2 repair); needs a non-integer coordinate and read→write→read",
"C17-s2": "the async header writer emits the header in two writes (first 100 bytes, then the rest)",
"C18-s2": "final seek is SeekFrom::End(0); needs data beyond the archive in the stream",
"C19-s2": "entry length read as u64, zero-checked, then narrowed to u32; needs a length varint that is a multiple of 2^32",
"C20-s2": "async decoder built on binding.get_mut() (the unlimited inner reader); needs async + compressing codec + byte tracking",
"C01-s3": "add_tile stores the bytes under the hash before remove_tile: re-adding the content an id already has deletes what was just stored; needs add(i,X); add(i,X) with X unshared",
"C02-s3": "encoder's next_byte = offset + length·max(run_length,1): the offset column writes 0 for an entry that merely coincides; needs a run followed by a back-reference at that offset",
"C03-s3": "metadata decoded from the bare stream instead of take(json_metadata_length); needs internal compression None or ZStd and bytes after the metadata section",
"C04-s3": "same mechanism as C01-s1 found independently (chunks_exact); needs spill and an entry count that is not a multiple of the leaf size, then save+reopen",
"C05-s3": "two cooperating fast paths: the encoder emits nothing for an empty directory, the decoder accepts length 0; needs the empty entry list",
"C06-s3": "measured root length narrowed to u16 before the budget comparison; needs a pointer root of 65 536·k + (≤ 16 257) bytes (start_size 1, ≥ 16 384 entries)",
"C07-s3": "async get_tile validates (z, x, x): y is never checked; needs the async API and y ≥ 2^z",
"C08-s3": "is_valid_zxy accepts z <= 32 (same line as C07-s1, found independently); needs zoom 32 with a large Hilbert index (add overflow)",
"C09-s3": "min_zoom and center_zoom swap places in struct Header (deku derives the wire layout from declaration order); needs min_zoom ≠ center_zoom",
"C10-s3": "same mechanism as C01-s3 found independently; needs add(i,X); add(i,X): the store then holds zero copies of X",
"C11-s3": "a lower-bound skip placed before the leaf/tile dispatch also skips leaf pointers (run_length 0) whose first id ≤ range start; needs leaves and a bounded start",
"C12-s3": "sync gzip decoder becomes MultiGzDecoder while the async one stays single-member; needs a gzip section with a second member or padding",
"C13-s3": "lazy tile fetch uses read() instead of read_exact() into a zero-filled buffer; needs a reader returning short reads",
"C14-s3": "decompress_all caps the output at 1032 × input length through take(); needs highly compressible brotli/zstd input",
"C15-s3": "offset-column read matched as Ok(val) if val > 0 / _ if i > 0: a read error is taken for 'contiguous'; needs a fault in the offset column after the first entry",
"C16-s3": "dedup table insert only when ids_by_hash holds > 1 ids (same idea as C10-s1, found independently); needs a backing tile sharing content with one in-memory tile",
"C17-s3": "two cooperating edits: the writer reserves the header area by writing Header::default(), the walker accepts a zero-length directory; every torn state then opens as an empty archive",
"C18-s3": "both root-fit tests compare the absolute stream position with 16 384 instead of the P-relative length; needs P near or above 16 K",
"C19-s3": "walker returns Ok(()) for dir_length == 0 before decoding: Unknown compression with an empty root and no metadata opens; needs exactly that header",
"C20-s3": "recursive call passes leaf_offset as the leaf-section base; needs two nested leaf levels with the first-level leaf not at offset 0",
"C01-s4": "[disguised in a refactoring] new helper from_header(&Header) copies 11 of the 12 header settings (center_zoom falls back to ..Self::default()); needs center_zoom ≠ 0",
"C02-s4": "[disguised] Header literal moved into build_header(sections, addressed, entries, content); the call passes (addressed, content, entries); needs a non-adjacent duplicate tile",
"C03-s4": "[disguised] new Entry::covers uses tile_id <= run_end (run end is exclusive); needs a lookup of the id just past a run",
"C04-s4": "[disguised] remove_tile: get + remove moved inside the `if let Hash(..)` arm, so reader-backed tiles are never removed; needs save, reopen, remove",
"C05-s4": "[disguised] new is_contiguous uses abs_diff(prev.offset) == prev.length (symmetric); needs an entry exactly prev.length bytes in front of its predecessor",
"C06-s4": "[disguised] root_dir_overflow = length.checked_sub(MAX) is Some(0) at exactly 16 257 bytes; needs a list that encodes to exactly the budget",
"C07-s4": "[disguised] grid_size = (z < 32).then_some(1 << z) evaluates the shift eagerly; needs a lookup with z ≥ 64 (debug build panics)",
"C08-s4": "[disguised] depth guard moved to the recursion site with child_depth = depth + 1, but the recursive call passes depth; needs a leaf-pointer cycle",
"C09-s4": "[disguised] Header::from_bytes slices the input under the guard len > 127 (should be ≥); needs exactly 127 bytes",
"C10-s4": "[disguised] push_entry matches entries.as_mut_slice() with [last, ..] instead of [.., last]; needs a run that is not the first directory entry",
"C11-s4": "[disguised] new tiles_in_range uses take_while(contains) instead of filter; needs a run that starts before the range's lower bound",
"C12-s4": "[disguised] new checked_tile_id(z, x, y) is called as (z, y, x) in get_tile_async only; needs x ≠ y, async",
"C13-s4": "[disguised] a SectionWriter adapter counts bytes offered instead of bytes accepted; needs short writes or Pending during the metadata section",
"C14-s4": "[disguised] codec dispatch moved into duplicate_item templates; the brotli/zstd cells of the compress_async row are swapped",
"C15-s4": "[disguised] get_tile's reader arm is Ok(read_range(..).ok()) instead of .map(Some): a failing read looks like 'no such tile'",
"C16-s4": "[disguised] remove_tile through the entry API removes the slot only inside the `if let Hash` arm; needs remove of a reader-backed tile, then write",
"C17-s4": "[disguised] new write_blocks(output, payload, commit) is called with header and tile data swapped: the header is written before the tile data",
"C18-s4": "[disguised] root_directory_length = meta_data_pos − root_directory_offset (relative 127 instead of the absolute P + 127); needs P ≠ 0",
"C19-s4": "[disguised] parse_meta_data takes Option<Value>; the readers pass serde_json::from_reader(..)? unwrapped, so JSON null deserialises to None = empty map",
"C20-s4": "[disguised] new offset_in_section(section, rel, msg) is called with header.leaf_directories_offset for tiles; needs a non-empty leaf section",
"C01-s5": "[periphery] write_lat_lon truncates toward zero instead of rounding; needs a coordinate whose value·1e7 has a fractional part ≥ 0.5",
"C02-s5": "[periphery] leaf pointers carry all_entries[0].tile_id instead of the chunk's first id; needs ≥ 2 leaves and an independent reader (the library's own walker is blind to it)",
"C03-s5": "[periphery] opener reports center_zoom from header.min_zoom; needs an archive with center_zoom ≠ min_zoom (second attempt: the first one, a transposed get_tile(x,y,z), is kept as C07-s6)",
"C04-s5": "[periphery] decoder clamps the entry count itself to MAX_PREALLOCATED_ENTRIES; needs one directory with > 65536 entries, save + reopen",
"C05-s5": "[periphery] compress_async builds the zstd encoder for Brotli and vice versa; needs the async directory writer with Brotli or ZStd",
"C06-s5": "[periphery] same patch as C05-s5, found independently: the async root is written with the wrong codec while the leaves (sync) are right; needs async + Brotli/ZStd",
"C07-s5": "[periphery] get_tile_async passes tile_id(z, y, x); needs an async coordinate lookup with x ≠ y",
"C07-s6": "[periphery] get_tile passes tile_id(z, y, x) (seeded for C03, whose statement does not cover coordinate lookups; kept under C07); needs a sync coordinate lookup with x ≠ y",
"C08-s5": "[periphery] range_end_inc: Excluded(val) ⇒ *val - 1; needs a filter range ending at exclusive 0 (overflow-checked build)",
"C09-s5": "[periphery] #[deku(assert_eq = \"3\")] → #[deku(update = \"3\")] on spec_version; needs a header with a version byte ≠ 3",
"C10-s5": "[periphery] calculate_hash hashes (len, first 1024 bytes); needs two equal-length contents > 1 KiB sharing their first KiB",
"C11-s5": "[periphery] from_async_reader_partially forwards `..` instead of the caller's range; needs an async partial open with any proper sub-range",
"C12-s5": "[periphery] write_directories_async passes None instead of the caller's overflow strategy; needs the async utility with an explicit start_size and an overflowing root",
"C13-s5": "[second attempt] walker checks stream_position() == dir_offset + dir_length after a compressed directory; needs short reads + internal compression (the first attempt duplicated C07-s5 and was not schedule-dependent: dropped)",
"C14-s5": "[periphery] decompress_async passes the input through for Compression::Unknown; needs the async decompress helper with Unknown",
"C15-s5": "[periphery] stream_position().unwrap() in the leaf-pointer strategy; needs a spilling archive and a fault exactly at that position query",
"C16-s5": "[periphery] Cargo.toml: serde_json feature preserve_order; needs two metadata keys inserted in different orders",
"C17-s5": "[periphery] to_writer assembles the archive in a Cursor and io::copy's it to the output (header arrives first); needs an archive > 8 KiB and a crash after the first chunk",
"C18-s5": "[periphery] async row of the writer template finishes the metadata encoder with flush instead of close; needs the async writer with gzip/brotli/zstd and a read-back from P",
"C19-s5": "[periphery] compress_async passes the writer through for Compression::Unknown; needs an async write with internal compression Unknown",
"C20-s5": "[periphery] Header::from_async_reader wraps the input in a BufReader (8 KiB read-ahead into the tile data); needs an async open of a small archive through a byte-tracking reader",
}
rows = []
for d in sorted(os.listdir(os.path.join(V, "seeded"))):
    mp = os.path.join(V, "seeded", d, "meta.json")
    if not os.path.exists(mp):
        continue
    m = json.load(open(mp))
    patch = open(os.path.join(V, "seeded", d, "patch.diff")).read()
    files = sorted(set(re.findall(r"^\+\+\+ b/(\S+)", patch, re.M)))
    what = SUMMARY.get(d) or m.get("summary") or ""
    if not what:
        notes = m.get("needs_to_manifest", "")
        what = " ".join(notes.split())[:220]
    own = m["detected_by"].get(m["property"]) or []
    others = sorted(k for k, v in m["detected_by"].items() if k != m["property"] and isinstance(v, list) and v)
    rows.append("| %s | %s | %s | %s | %s | %s |" % (d, m["property"], ", ".join(f.replace("src/", "") for f in files), what.replace("|", "/"),
                                                ", ".join(own) if own else "**missed**", ", ".join(others) or "—"))
table = "| seed | property | file(s) | change / what it needs to manifest (from the seeder's notes) | caught by the property's own check (rules) | also flagged by |\n|---|---|---|---|---|---|\n" + "\n".join(rows)
p = os.path.join(V, "DESIGN.md")
t = open(p).read()
b, e = "<!-- SEEDED-TABLE-BEGIN -->", "<!-- SEEDED-TABLE-END -->"
if b in t:
    t = t[:t.index(b) + len(b)] + "\n" + table + "\n" + t[t.index(e):]
    open(p, "w").write(t)
print(len(rows), "rows")
