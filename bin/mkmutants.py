#!/usr/bin/env python3
"""(Re)generate the hand-written mutant corpus as unified diffs against /repo's current HEAD.
Each mutant: (name, properties it breaks, rules expected to fire, [(file, old, new), ...])."""
import os, shutil, subprocess, sys, json

REPO = "/repo"
OUT = os.path.join(os.path.dirname(os.path.dirname(os.path.abspath(__file__))), "mutants")

M = []
def mut(name, props, rules, edits, note=""):
    M.append((name, props, rules, edits, note))

P = "src/pmtiles.rs"; T = "src/tile_manager.rs"; D = "src/directory.rs"; R = "src/util/read_directories.rs"; W = "src/util/write_directories.rs"
H = "src/header/mod.rs"; L = "src/header/lat_lng.rs"; C = "src/util/compress.rs"; I = "src/util/tile_id.rs"

mut("swap-min-lat-lon-writer", ["C01"], ["R-FIELDMAP"], [(P, "                longitude: self.min_longitude,\n                latitude: self.min_latitude,", "                longitude: self.min_latitude,\n                latitude: self.min_longitude,")])
mut("drop-tile-data-offset", ["C01", "C03"], ["R-ADDR"], [(P, "let Some(offset) = header.tile_data_offset.checked_add(info.offset) else {", "let Some(offset) = info.offset.checked_add(0) else {")])
mut("swap-counters", ["C02"], ["R-COUNTERS"], [(P, "num_tile_entries: result.num_tile_entries,\n            num_tile_content: result.num_tile_content,", "num_tile_entries: result.num_tile_content,\n            num_tile_content: result.num_tile_entries,")])
mut("leaf-offset-without-base", ["C03"], ["R-WALK"], [(R, "let Some(leaf_offset) = leaf_dir_offset.checked_add(entry.offset) else {", "let Some(leaf_offset) = entry.offset.checked_add(0) else {")])
mut("meta-offset-wrong-field", ["C03", "C20"], ["R-META0", "R-BOUNDED-READ"], [(P, "SeekFrom::Start(header.json_metadata_offset)", "SeekFrom::Start(header.root_directory_offset + header.root_directory_length)")])
mut("remove-no-emptiness-guard", ["C04", "C10"], ["R-REMOVE-GUARD"], [(T, "if ids_with_hash.is_empty() {", "if !ids_with_hash.is_empty() || ids_with_hash.is_empty() {")])
mut("add-without-remove", ["C04", "C10"], ["R-ADD-PAIR"], [(T, "        self.remove_tile(tile_id);\n\n        let hash", "        let hash")])
mut("async-id-u32", ["C05", "C12"], ["R-COLS", "R-TWIN"], [(D, "[reader.read_varint_async::<type>().await]", "[reader.read_varint_async::<u32>().await.map(|v| v as type)]")], "async-only narrowing")
mut("offset-rule-no-index-check", ["C05"], ["R-OFFRULE"], [(D, "let val = if index > 0 && entry.offset == next_byte {", "let val = if entry.offset == next_byte {")])
mut("decoder-offset-plus-one", ["C05", "C03"], ["R-OFFRULE"], [(D, "val.checked_sub(1).ok_or_else(|| {", "val.checked_sub(0).ok_or_else(|| {")])
mut("root-budget-16384", ["C06", "C02"], ["R-BUDGET"], [(W, "const MAX_ROOT_DIR_LENGTH: u16 = 16384 - HEADER_BYTES as u16;", "const MAX_ROOT_DIR_LENGTH: u16 = 16384;")])
mut("leafptr-runlength-1", ["C06"], ["R-LEAFPTR"], [(W, "                run_length: 0,", "                run_length: 1,")])
mut("leafptr-last-id", ["C06"], ["R-LEAFPTR"], [(W, "tile_id: entries[0].tile_id,", "tile_id: entries[entries.len() - 1].tile_id,")])
mut("spill-budget-le-strict", ["C06"], ["R-BUDGET"], [(W, "    if root_directory_length <= u64::from(MAX_ROOT_DIR_LENGTH) {\n        return Ok(Vec::new());", "    if root_directory_length < u64::from(MAX_ROOT_DIR_LENGTH) {\n        return Ok(Vec::new());")])
mut("zxy-guard-le-32", ["C07", "C08"], ["R-ZXY-GUARD"], [(I, "z < MAX_Z && x < (1u64 << z) && y < (1u64 << z)", "z <= MAX_Z && x < (1u64 << z) && y < (1u64 << z)")])
mut("zxy-guard-no-y", ["C07"], ["R-ZXY-GUARD"], [(I, "z < MAX_Z && x < (1u64 << z) && y < (1u64 << z)", "z < MAX_Z && x < (1u64 << z)")])
mut("zxy-async-unguarded", ["C07", "C12"], ["R-ZXY-GUARD", "R-TWIN"], [(P, "        if !is_valid_zxy(z, x, y) {\n            return Ok(None);\n        }\n\n        self.get_tile_by_id_async(", "        self.get_tile_by_id_async(")])
mut("revert-checked-id-sum", ["C08"], ["R-TAINT-ARITH"], [(D, "            last_id = last_id\n                .checked_add(tmp)\n                .ok_or_else(|| invalid_data(\"Tile id of a directory entry overflows.\"))?;", "            last_id += tmp;")])
mut("revert-capacity-clamp", ["C08"], ["R-TAINT-ALLOC"], [(D, "with_capacity(num_entries.min(MAX_PREALLOCATED_ENTRIES))", "with_capacity(num_entries)")])
mut("drop-depth-check", ["C08"], ["R-REC-BOUND"], [(R, "    if depth > MAX_DIRECTORY_DEPTH {", "    if false && depth > MAX_DIRECTORY_DEPTH {")])
mut("drop-assert-eq-version", ["C09"], ["R-HDR-REJECT"], [(H, "    #[deku(assert_eq = \"3\")]\n", "")])
mut("header-swap-zoom-fields", ["C09", "C02"], ["R-HDR-LAYOUT"], [(H, "    /// Minimum zoom of all tiles this archive\n    pub min_zoom: u8,\n\n    /// Maximum zoom of all tiles this archive\n    pub max_zoom: u8,", "    /// Maximum zoom of all tiles this archive\n    pub max_zoom: u8,\n\n    /// Minimum zoom of all tiles this archive\n    pub min_zoom: u8,")])
mut("unround", ["C09", "C16", "C01"], ["R-ROUND"], [(L, "(field * LAT_LONG_FACTOR).round() as i32", "(field * LAT_LONG_FACTOR) as i32")])
mut("offset-after-append", ["C10", "C01"], ["R-FINISH-PAIR"], [(T, "                let offset = data.len() as u64;\n\n                #[allow(clippy::cast_possible_truncation)]\n                let length = tile_data.len() as u32;\n\n                data.append(&mut tile_data);", "                #[allow(clippy::cast_possible_truncation)]\n                let length = tile_data.len() as u32;\n\n                data.append(&mut tile_data);\n                let offset = data.len() as u64 - u64::from(length) + u64::from(length);")])
mut("rle-no-adjacency", ["C10"], ["R-RLE-DEP"], [(T, "if tile_id == last.tile_id + u64::from(last.run_length)\n                && last.offset == offset", "if tile_id >= last.tile_id + u64::from(last.run_length)\n                && last.offset == offset")])
mut("leaf-skip-ge", ["C11"], ["R-LEAF-SKIP"], [(R, "if entry.tile_id > range_end {", "if entry.tile_id >= range_end {")])
mut("drop-contains", ["C11"], ["R-FILTER-GUARD"], [(R, "            if !filter_range.contains(&tile_id) {\n                continue;\n            }\n", "")])
mut("range-end-unsaturated", ["C11", "C08"], ["R-RANGE-END"], [(R, "Some(val.saturating_sub(1))", "Some(*val - 1)")])
mut("swap-brotli-gzip-async-dec", ["C12", "C14"], ["R-FACTORY"], [(C, "        Compression::GZip => Ok(Box::new(AsyncGzipDecoder::new(BufReader::new(\n            compressed_data,\n        )))),\n        Compression::Brotli => Ok(Box::new(AsyncBrotliDecoder::new(BufReader::new(\n            compressed_data,\n        )))),", "        Compression::GZip => Ok(Box::new(AsyncBrotliDecoder::new(BufReader::new(\n            compressed_data,\n        )))),\n        Compression::Brotli => Ok(Box::new(AsyncGzipDecoder::new(BufReader::new(\n            compressed_data,\n        )))),")])
mut("async-zstd-single-frame", ["C12"], ["R-FACTORY"], [(C, "            decoder.multiple_members(true);\n", "")], "reverts F11: async zstd decoder stops after the first frame, the sync one does not")
mut("sync-multi-gz", ["C12"], ["R-FACTORY"], [(C, "use flate2::{read::GzDecoder, write::GzEncoder};", "use flate2::{read::MultiGzDecoder as GzDecoder, write::GzEncoder};")], "sync gzip decoder reads every member, the async one only the first")
mut("sync-zstd-single-frame", ["C12"], ["R-FACTORY"], [(C, "Compression::ZStd => Ok(Box::new(ZSTDDecoder::new(compressed_data)?)),", "Compression::ZStd => Ok(Box::new(ZSTDDecoder::new(compressed_data)?.single_frame())),")], "sync zstd stops after the first frame while the async one (after F11) reads all")
mut("async-close-to-flush-dir", ["C12", "C15"], ["R-TWIN", "R-FINALISE"], [(D, "[to_async_writer_impl] [cfg(feature=\"async\")] [(impl AsyncWrite + Unpin + Send)] [compress_async] [close]", "[to_async_writer_impl] [cfg(feature=\"async\")] [(impl AsyncWrite + Unpin + Send)] [compress_async] [flush]")])
mut("async-header-read-short", ["C13", "C12"], ["R-XFER", "R-HDR-IO"], [(H, "        input.read_exact(&mut buf).await?;", "        input.read(&mut buf).await?;")])
mut("flush-ok-swallowed", ["C15"], ["R-RESULT-USED"], [(C, "        writer.flush()?;\n    }\n\n    Ok(destination)", "        writer.flush().ok();\n    }\n\n    Ok(destination)")])
mut("unknown-compress-passthrough", ["C14", "C19"], ["R-REJ-UNKNOWN"], [(C, "pub fn compress<'a>(\n    compression: Compression,\n    writer: &'a mut impl Write,\n) -> Result<Box<dyn Write + 'a>> {\n    match compression {\n        Compression::Unknown => Err(Error::new(\n            ErrorKind::Other,\n            \"Cannot compress for Compression Unknown\",\n        )),\n        Compression::None => Ok(Box::new(writer)),", "pub fn compress<'a>(\n    compression: Compression,\n    writer: &'a mut impl Write,\n) -> Result<Box<dyn Write + 'a>> {\n    match compression {\n        Compression::Unknown | Compression::None => Ok(Box::new(writer)),")])
mut("drop-sort", ["C16", "C02"], ["R-ORDER"], [(T, "        id_tile.sort_by(|a, b| a.0.cmp(&b.0));\n", "")])
mut("sort-descending", ["C16", "C02"], ["R-ORDER"], [(T, "id_tile.sort_by(|a, b| a.0.cmp(&b.0));", "id_tile.sort_by(|a, b| b.0.cmp(&a.0));")])
mut("header-before-data", ["C17"], ["R-HDR-LAST"], [(P, "        // DATA\n        let tile_data_offset = leaf_directories_offset + leaf_directories_length;\n        add_await([output.write_all(&result.data[0..])])?;\n        let tile_data_length = result.data.len() as u64;\n", "        // DATA\n        let tile_data_offset = leaf_directories_offset + leaf_directories_length;\n        let tile_data_length = result.data.len() as u64;\n"), (P, "        add_await([header.to_writer(output)])?;\n", "        add_await([header.to_writer(output)])?;\n        add_await([output.seek(SeekFrom::Start(start_pos + tile_data_offset))])?;\n        add_await([output.write_all(&result.data[0..])])?;\n")])
mut("seek-start-zero", ["C18"], ["R-ABS"], [(P, "add_await([output.seek(SeekFrom::Start(start_pos))])?; // jump to start of archive", "add_await([output.seek(SeekFrom::Start(0))])?; // jump to start of archive")])
mut("root-len-absolute", ["C18", "C01", "C02"], ["R-REL"], [(P, "add_await([output.stream_position()])? - start_pos - root_directory_offset;", "add_await([output.stream_position()])? - root_directory_offset;")])
mut("empty-check-after-remove", ["C19"], ["R-REJ-EMPTY"], [(T, "        let vec: Vec<u8> = data.into();\n\n        if vec.is_empty() {", "        let vec: Vec<u8> = data.into();\n        self.remove_tile(tile_id);\n\n        if vec.is_empty() {")])
mut("drop-len0-writer", ["C19", "C05"], ["R-LEN0"], [(D, "            if entry.length == 0 {\n                return Err(std::io::Error::new(\n                    std::io::ErrorKind::InvalidData,\n                    \"Length of a directory entry must be greater than 0.\",\n                ));\n            }\n            write_varint([writer], [entry.length])?;", "            write_varint([writer], [entry.length])?;")])
mut("meta-accept-null", ["C19"], ["R-REJ-META"], [(P, "        let JSONValue::Object(map) = val else {\n            return Err(std::io::Error::new(\n                std::io::ErrorKind::InvalidData,\n                \"PMTiles' metadata must be JSON Object\",\n            ));\n        };\n\n        Ok(map)", "        match val {\n            JSONValue::Object(map) => Ok(map),\n            JSONValue::Null => Ok(JSONMap::new()),\n            _ => Err(std::io::Error::new(\n                std::io::ErrorKind::InvalidData,\n                \"PMTiles' metadata must be JSON Object\",\n            )),\n        }")])
mut("drop-take", ["C20"], ["R-BOUNDED-READ"], [(P, "let mut meta_data_reader = (&mut input).take(header.json_metadata_length);", "let mut meta_data_reader = (&mut input).take(u64::MAX);")])
mut("eager-first-tile", ["C20"], ["R-LAZY"], [(P, "        Ok(Self {\n            tile_type: header.tile_type,", "        let _ = add_await([tile_manager.get_tile(0)])?;\n\n        Ok(Self {\n            tile_type: header.tile_type,"), (P, "read_meta_data         from_reader;", "read_meta_data         from_reader         get_tile;"), (P, "[read_meta_data]       [from_reader];", "[read_meta_data]       [from_reader]       [get_tile];"), (P, "[read_meta_data_async] [from_async_reader];", "[read_meta_data_async] [from_async_reader] [get_tile_async];")])

# spurious refusals in a corner (the guard is still there, something extra is refused/skipped as well)
mut("filter-skips-odd-ids", ["C11"], ["R-FILTER-GUARD"], [(R, "            if !filter_range.contains(&tile_id) {", "            if !filter_range.contains(&tile_id) || tile_id == u64::MAX - 1 {")])
mut("zxy-refuses-zoom0", ["C07"], ["R-ZXY-GUARD"], [(P, "        if !is_valid_zxy(z, x, y) {\n            return Ok(None);\n        }\n\n        self.get_tile_by_id(", "        if !is_valid_zxy(z, x, y) || z == 0 {\n            return Ok(None);\n        }\n\n        self.get_tile_by_id(")])
mut("add-refuses-large", ["C04"], ["R-REJ-EMPTY"], [(T, "        if vec.is_empty() {", "        if vec.is_empty() || vec.len() > (1 << 30) {")])
mut("offset-tile-refuses-offset0", ["C03", "C04"], ["R-ADD-OFFSET"], [(T, "        if length == 0 {", "        if length == 0 || offset == 0 {")])
mut("remove-keeps-bytes-sometimes", ["C10"], ["R-REMOVE-GUARD"], [(T, "if ids_with_hash.is_empty() {", "if ids_with_hash.is_empty() && hash != 0 {")])
mut("leaf-skip-and-start", ["C11"], ["R-LEAF-SKIP"], [(R, "            if entry.tile_id > range_end {", "            if entry.tile_id > range_end || entry.tile_id == 7 {")])
mut("header-len-narrowed", ["C01", "C02"], ["R-LAYOUT-W"], [(P, "let tile_data_length = result.data.len() as u64;", "let tile_data_length = result.data.len() as u32 as u64;")])
mut("hilbert-id-narrowed", ["C07"], ["R-HILBERT-CALL"], [(I, "hilbert_2d::xy2h_discrete(x as usize, y as usize, z as usize, Variant::Hilbert) as u64;", "hilbert_2d::xy2h_discrete(x as usize, y as usize, z as usize, Variant::Hilbert) as u32 as u64;")])

def main():
    if os.path.isdir(OUT):
        for f in os.listdir(OUT):
            if f.endswith(".patch") and not f.startswith(("seeded-", "shape-")):
                os.remove(os.path.join(OUT, f))
    os.makedirs(OUT, exist_ok=True)
    idx = {}
    for name, props, rules, edits, note in M:
        tmp = "/tmp/mkmut/w"
        shutil.rmtree(tmp, ignore_errors=True)
        subprocess.check_call(["git", "-C", REPO, "worktree", "add", "-q", "--detach", tmp, "HEAD"])
        try:
            ok = True
            for (fn, old, new) in edits:
                p = os.path.join(tmp, fn)
                t = open(p).read()
                if t.count(old) != 1:
                    print("!! %s: pattern occurs %d times in %s" % (name, t.count(old), fn)); ok = False; break
                open(p, "w").write(t.replace(old, new))
            if not ok:
                continue
            diff = subprocess.check_output(["git", "-C", tmp, "diff"], text=True)
            fname = "%s-%s.patch" % (props[0], name)
            open(os.path.join(OUT, fname), "w").write(diff)
            idx[fname] = {"properties": props, "expect_rules": rules, "note": note}
        finally:
            subprocess.call(["git", "-C", REPO, "worktree", "remove", "--force", tmp])
    old = {}
    ip = os.path.join(OUT, "index.json")
    if os.path.exists(ip):
        old = {k: v for k, v in json.load(open(ip)).items() if k.startswith(("seeded-", "shape-"))}   # shape-*: a defect inside a stored refactoring (refactor + slip as one patch)
    old.update(idx)
    json.dump(old, open(ip, "w"), indent=1, sort_keys=True)
    open(os.path.join(OUT, "BASE"), "w").write(subprocess.check_output(["git", "-C", REPO, "rev-parse", "HEAD"], text=True).strip() + "\n")
    print("wrote %d mutants" % len(idx))

if __name__ == "__main__":
    main()
