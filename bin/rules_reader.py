"""Rules over the opening path: opener (header → metadata → directories → PMTiles{..}), directory walker, lazy tile fetch.

R-ADDR (C01, C03, C20), R-FIELDMAP reader half (C01, C03), R-META0 (C03), R-WALK (C03), R-FIND (C03),
R-LAZY / R-BOUNDED-READ / R-EXACT-TILE (C20).
"""
from rulebase import *
from rulebase import _atom_facts as rulebase_atom_facts
from rules_writer import SETTINGS, no_anchor, struct_field

OFFLEN_CTOR = "tile_manager::TileManagerTile::OffsetLength"


def unmut(t):
    """drop the mutation-version wrappers: identity of the underlying variable / value"""
    if not isinstance(t, tuple) or not t:
        return t
    if t[0] == "mut":
        return unmut(t[1])
    if t[0] == "call":
        return ("call", t[1], tuple(unmut(a) for a in t[2]), t[3])
    if t[0] == "f":
        return ("f", unmut(t[1]), t[2])
    if t[0] == "bin":
        return ("bin", t[1], unmut(t[2]), unmut(t[3]))
    if t[0] in ("un",):
        return (t[0], t[1], unmut(t[2]))
    if t[0] == "cast":
        return ("cast", t[1], unmut(t[2])) + tuple(t[3:])
    if t[0] in ("tup", "arr"):
        return (t[0], tuple(unmut(a) for a in t[1]))
    if t[0] in ("proj",):
        return ("proj", unmut(t[1]), t[2])
    if t[0] == "elem":
        return ("elem", unmut(t[1]), t[2])
    if t[0] == "idx":
        return ("idx", unmut(t[1]), unmut(t[2]))
    if t[0] == "struct":
        return ("struct", t[1], tuple((n, unmut(v)) for n, v in t[2]), unmut(t[3]) if t[3] is not None else None)
    if t[0] == "shift":
        return ("shift", unmut(t[1]), unmut(t[2]))
    return t


def iter_base(t):
    """the collection behind order-preserving iterator adaptors"""
    t = unmut(t)
    while isinstance(t, tuple) and t and t[0] == "call" and t[1].endswith(("::into_iter", "::iter", "::iter_mut", "::by_ref")) and t[2]:
        t = unmut(t[2][0])
    return t


def is_call_to(t, pred):
    return isinstance(t, tuple) and t and t[0] == "call" and pred(t[1])


def hdr_read_fn(fn):
    return fn.startswith("header::Header::from_") and "reader" in fn


def opener_paths(ctx):
    out = []
    for f in ctx.openers():
        try:
            fa = ctx.fa(f)
        except PathExplosion:
            out.append((f, None, []))
            continue
        out.append((f, fa, [p for p in fa.paths if p.exit in ("ok", "tail")]))
    return out


def find_header_term(p):
    for e in p.events:
        if e.kind == "call" and hdr_read_fn(e.d["fn"]):
            return e, e.d["ret"]
    return None, None


def r_addr_open(ctx):
    """R-ADDR (open half): registered tile address = header.tile_data_offset + entry offset, length and id of the same entry"""
    obs = []
    ops = opener_paths(ctx)
    if not ops:
        return no_anchor("R-ADDR", "opener (function reading a Header and building PMTiles{..})")
    for f, fa, oks in ops:
        fn = f["path"]
        n = 0
        for p in (fa.paths if fa else []):
            he, H = find_header_term(p)
            for e in p.events:
                if e.kind == "call" and e.d["fn"].endswith("::add_offset_tile"):
                    n += 1
                    args = [unmut(a) for a in e.d["args"]]
                    if len(args) != 4:
                        obs.append(Ob("R-ADDR", fn, "add_offset_tile arity", False, "unexpected argument count", e.loc()))
                        continue
                    _, tid, off, ln = args
                    a = affine(off)
                    base = ("f", unmut(H), "tile_data_offset")
                    rest = {k: v for k, v in a[1].items() if k != base}
                    ok_base = a[1].get(base, 0) == 1 and a[0] == 0
                    # the remaining atom must be `.offset` of the iteration element whose `.length` and key are passed along
                    ent = None
                    if len(rest) == 1:
                        (atom, coef), = rest.items()
                        if coef == 1 and atom[0] == "f" and atom[2] == "offset":
                            ent = atom[1]
                    ok_len = ent is not None and ln == ("f", ent, "length")
                    ok_id = ent is not None and ent[0] == "proj" and ent[2] == 1 and tid == ("proj", ent[1], 0) and ent[1][0] == "elem"
                    src_ok = ent is not None and ent[0] == "proj" and ent[1][0] == "elem" and is_call_to(iter_base(ent[1][1]), lambda s: "read_directories" in s)
                    obs.append(Ob("R-ADDR", fn, "open: offset = tile_data_offset + entry.offset", ok_base and ent is not None,
                                  "registered offset = %s (must be 1·header.tile_data_offset + 1·entry.offset)" % aff_str(a), e.loc(), {"offset": aff_str(a)}))
                    obs.append(Ob("R-ADDR", fn, "open: length and id from the same entry", ok_len and ok_id and src_ok,
                                  "id = %s, length = %s" % (tstr(tid)[:120], tstr(ln)[:120]), e.loc()))
        if fa is not None and n == 0:
            obs.append(Ob("R-ADDR", fn, "open: registration call", False, "opener never registers offset tiles (add_offset_tile not found)", rel(f["loc"])))
    return obs


def lazy_fetchers(ctx):
    """local functions that read a tile's bytes on demand: they match a TileManagerTile::OffsetLength payload and read from a stream"""
    out = []
    for f in ctx.user_fns():
        has_pat = False
        for n in walk(f["body"]):
            if n["k"] == "Match":
                for a in n["arms"]:
                    if _pat_has_ctor(a["pat"], OFFLEN_CTOR):
                        has_pat = True
            elif n["k"] in ("LetCond", "Let"):
                if _pat_has_ctor(n.get("pat"), OFFLEN_CTOR):
                    has_pat = True
        if has_pat and any(c["fn"] in READ_EXACT for c in calls(f["body"])):
            out.append(f)
    return out


READ_EXACT = ("std::io::Read::read_exact", "futures_util::io::AsyncReadExt::read_exact")


def _pat_has_ctor(p, ctor):
    if p is None:
        return False
    if p["k"] == "TupleStruct" and p.get("ctor") == ctor:
        return True
    for key in ("pats",):
        for x in p.get(key, []) or []:
            if _pat_has_ctor(x, ctor):
                return True
    if p.get("pat") is not None and isinstance(p.get("pat"), dict):
        return _pat_has_ctor(p["pat"], ctor)
    for f in p.get("fields", []) or []:
        if _pat_has_ctor(f["pat"], ctor):
            return True
    return False


def r_exact_tile(ctx):
    """R-ADDR (lookup half) = R-EXACT-TILE: a lookup seeks to the stored offset and reads exactly `length` bytes, once"""
    obs = []
    lf = lazy_fetchers(ctx)
    if not lf:
        return no_anchor("R-EXACT-TILE", "lazy tile fetch (function matching TileManagerTile::OffsetLength and calling read_exact)")
    for f in lf:
        fn = f["path"]
        fa = ctx.fa(f)
        n = 0
        for p in fa.paths:
            reads = [e for e in p.events if e.kind == "call" and any(k == "read" for k, _ in e.d["effects"])]
            if not reads:
                continue
            n += 1
            seeks = [e for e in p.events if e.kind == "call" and any(k == "seek" for k, _ in e.d["effects"])]
            dec = [e for e in p.decisions() if e.d.get("pat") is not None and _pat_has_ctor(e.d["pat"], OFFLEN_CTOR) and e.d["outcome"] not in (False,)]
            if not dec:
                obs.append(Ob("R-EXACT-TILE", fn, "read outside the OffsetLength arm", False, "a read effect happens on a path that did not match TileManagerTile::OffsetLength", reads[0].loc()))
                continue
            tile = unmut(dec[-1].d["cond"])
            off_t = ("proj", tile, "TileManagerTile::OffsetLength.0")
            len_t = ("proj", tile, "TileManagerTile::OffsetLength.1")
            one = len(reads) == 1 and reads[0].d["fn"] in READ_EXACT
            obs.append(Ob("R-EXACT-TILE", fn, "exactly one read_exact per lookup", one,
                          "read effects on the fetch path: %s" % ", ".join(e.d["fn"].split("::")[-1] for e in reads), reads[0].loc()))
            ok_seek = False
            if seeks:
                s = seeks[-1]
                if s.seq < reads[0].seq and len(s.d["args"]) > 1:
                    tgt = unmut(s.d["args"][1])
                    if is_call_to(tgt, lambda x: x == "std::io::SeekFrom::Start") and aff_eq(affine(tgt[2][0]), affine(off_t)):
                        ok_seek = True
            obs.append(Ob("R-EXACT-TILE", fn, "seek(Start(stored offset)) before the read", ok_seek,
                          "seek target before the read: %s; stored offset: %s" % (tstr(unmut(seeks[-1].d["args"][1]))[:120] if seeks else "none", tstr(off_t)[:120]), reads[0].loc()))
            # buffer = vec![0; length as usize]  (or with_capacity/resize of exactly `length`)
            buf = unmut(reads[0].d["args"][1]) if len(reads[0].d["args"]) > 1 else None
            ok_len = False
            if is_call_to(buf, lambda x: x == "alloc::vec::from_elem") and len(buf[2]) == 2:
                ok_len = aff_eq(affine(buf[2][1]), affine(len_t))
            obs.append(Ob("R-EXACT-TILE", fn, "buffer length = stored length", ok_len,
                          "read_exact buffer = %s; stored length: %s" % (tstr(buf)[:120], tstr(len_t)[:100]), reads[0].loc()))
            # result is that buffer
            if p.exit in ("ok", "tail"):
                val = unmut(p.value)
                obs.append(Ob("R-EXACT-TILE", fn, "returns the bytes read", _contains(val, buf),
                              "returned %s" % tstr(val)[:120], reads[0].loc()))
        if n == 0:
            obs.append(Ob("R-EXACT-TILE", fn, "fetch path", False, "no path with a read effect found", rel(f["loc"])))
    return obs


def _contains(t, sub):
    return any(x == sub for x in subterms(t))


def r_fieldmap_r(ctx):
    """R-FIELDMAP (reader half): every archive setting is the header field the spec pairs it with"""
    obs = []
    ops = opener_paths(ctx)
    if not ops:
        return no_anchor("R-FIELDMAP", "opener")
    for f, fa, oks in ops:
        fn = f["path"]
        if not oks:
            obs.append(Ob("R-FIELDMAP", fn, "paths", False, "no analysable success path", rel(f["loc"])))
        for p in oks:
            he, H = find_header_term(p)
            val = unmut(p.value)
            st = val[2][0] if is_call_to(val, lambda x: x == "core::result::Result::Ok") and val[2] else None
            if st is None or st[0] != "struct" or st[1] != "pmtiles::PMTiles":
                obs.append(Ob("R-FIELDMAP", fn, "model", False, "success value is not a PMTiles{..} literal", rel(f["loc"])))
                continue
            for arch, hpath in SETTINGS.items():
                t = struct_field(st, arch)
                want = unmut(H)
                for seg in hpath:
                    want = ("f", want, seg)
                obs.append(Ob("R-FIELDMAP", fn, "read %s" % arch, t == want,
                              "PMTiles.%s ← %s (expected header.%s)" % (arch, tstr(t)[:100] if t else "missing", ".".join(hpath)), he.loc() if he else ""))
    return obs


def r_meta0(ctx):
    """R-META0: metadata length 0 ⇒ empty map and no read; otherwise seek(offset), take(length), decompress with the internal compression, parse"""
    obs = []
    ops = opener_paths(ctx)
    if not ops:
        return no_anchor("R-META0", "opener")
    for f, fa, oks in ops:
        fn = f["path"]
        seen = {True: 0, False: 0}
        for p in oks:
            he, H = find_header_term(p)
            H = unmut(H)
            mlen = ("f", H, "json_metadata_length")
            moff = ("f", H, "json_metadata_offset")
            comp = ("f", H, "internal_compression")
            dec = None
            zero = None
            dz, dn = knows(p, ("eq", mlen, 0)), knows(p, ("ne", mlen, 0))
            if dz is not None:
                dec, zero = dz, True
            elif dn is not None:
                dec, zero = dn, False
            val = unmut(p.value)
            st = val[2][0] if is_call_to(val, lambda x: x == "core::result::Result::Ok") and val[2] else None
            md = struct_field(st, "meta_data") if st is not None else None
            if dec is None:
                obs.append(Ob("R-META0", fn, "length test", False, "success path without a `json_metadata_length == 0` decision", rel(f["loc"])))
                continue
            seen[zero] += 1
            dir_calls = [e for e in p.events if e.kind == "call" and "read_directories" in e.d["fn"]]
            upto = dir_calls[0].seq if dir_calls else len(p.events)
            meta_reads = [e for e in p.events if e.kind == "call" and he.seq < e.seq < upto and any(k in ("read", "seek", "unknown") for k, _ in e.d["effects"])]
            if zero:
                ok = not meta_reads and is_call_to(md, lambda x: x.startswith("serde_json::map::Map") and x.endswith("::new"))
                obs.append(Ob("R-META0", fn, "length 0 ⇒ empty object, no stream access", ok,
                              "meta_data = %s; stream effects before the directory walk: %d" % (tstr(md)[:80], len(meta_reads)), dec.loc()))
            else:
                seeks = [e for e in meta_reads if any(k == "seek" for k, _ in e.d["effects"])]
                rds = [e for e in meta_reads if any(k == "read" for k, _ in e.d["effects"])]
                ok_seek = len(seeks) == 1 and is_call_to(unmut(seeks[0].d["args"][1]), lambda x: x == "std::io::SeekFrom::Start") and unmut(seeks[0].d["args"][1])[2][0] == moff
                ok_read = False
                why = ""
                if len(rds) == 1 and rds[0].d["fn"] in ctx.facts.fns:
                    a = [unmut(x) for x in rds[0].d["args"]]
                    take = [x for x in a if is_call_to(x, lambda s: s.endswith("::take"))]
                    ok_read = (len(take) == 1 and take[0][2][1] == mlen and comp in a and md == unmut(rds[0].d["ret"]))
                    why = "reader args: %s" % ", ".join(tstr(x)[:70] for x in a)
                obs.append(Ob("R-META0", fn, "non-empty ⇒ seek(Start(json_metadata_offset))", ok_seek and (not rds or seeks[0].seq < rds[0].seq),
                              "seeks before metadata read: %s" % ", ".join(tstr(unmut(s.d["args"][1]))[:80] for s in seeks), dec.loc()))
                obs.append(Ob("R-META0", fn, "non-empty ⇒ read through take(json_metadata_length) with the internal compression", ok_read,
                              why or "metadata read events: %d" % len(rds), dec.loc()))
        if fa is not None and (seen[True] == 0 or seen[False] == 0):
            obs.append(Ob("R-META0", fn, "both arms present", False, "paths with length==0: %d, with length!=0: %d" % (seen[True], seen[False]), rel(f["loc"])))
    return obs


def r_parse_meta_end(ctx):
    """metadata readers end in the object check: the value they return is parse_meta_data(<parsed JSON>) (C03 reported-as-stored, C19 R-REJ-META)"""
    obs = []
    parsers = [f for f in ctx.user_fns() if any(c["fn"] in ("serde_json::de::from_reader", "serde_json::de::from_slice", "serde_json::de::from_str") for c in calls(f["body"]))]
    if not parsers:
        return no_anchor("R-REJ-META", "metadata reader (function calling serde_json::from_*)")
    for f in parsers:
        fa = ctx.fa(f)
        for p in fa.paths:
            if p.exit not in ("ok", "tail"):
                continue
            v = unmut(p.value)
            ok = False
            if is_call_to(v, lambda x: x in ctx.facts.fns):
                callee = ctx.fn(v[1])
                js = [a for a in v[2] if is_call_to(a, lambda x: x.startswith("serde_json::de::from_"))]
                ok = bool(js) and callee is not None and _is_object_check(ctx, callee)
            obs.append(Ob("R-REJ-META", f["path"], "result goes through the object check", ok,
                          "returns %s" % tstr(v)[:140], rel(f["loc"])))
    return obs


def _is_object_check(ctx, f):
    """the function returns Ok only with the payload bound by the serde_json::Value::Object pattern"""
    fa = ctx.fa(f)
    oks = [p for p in fa.paths if p.exit in ("ok", "tail")]
    errs = [p for p in fa.paths if p.exit == "err"]
    if not oks or not errs:
        return False
    for p in oks:
        good = False
        for fct, d in path_facts(p):
            if fct[0] == "variant" and fct[2] == "serde_json::value::Value::Object" and fct[3] is True:
                # value returned is the bound payload
                v = unmut(p.value)
                if is_call_to(v, lambda x: x == "core::result::Result::Ok") and v[2]:
                    v = v[2][0]
                if v == ("proj", unmut(d.d["cond"]), "Value::Object.0"):
                    good = True
        if not good:
            return False
    return True


def r_rej_meta(ctx):
    """R-REJ-META: every metadata reader (a function that parses JSON) returns, on success, the payload of a value it has found to be a
    `Value::Object` — whether the test is written in the reader itself or in a helper evaluated in place — and has an error exit of its own for
    the other kinds"""
    obs = []
    parsers = [f for f in ctx.user_fns() if any(c["fn"] in ("serde_json::de::from_reader", "serde_json::de::from_slice", "serde_json::de::from_str") for c in calls(f["body"]))]
    if not parsers:
        return no_anchor("R-REJ-META", "metadata reader (function calling serde_json::from_*)")
    for f in parsers:
        fa = ctx.fa(f)
        n_ok = 0
        own_err = False
        for p in fa.paths:
            js = [e for e in p.events if e.kind == "call" and e.d["fn"].startswith("serde_json::de::from_")]
            if p.exit == "err" and js and not (isinstance(p.value, tuple) and p.value and p.value[0] == "errprop" and _is_try_of(p, js[-1])):
                own_err = own_err or any(fct[0] == "variant" and fct[2] == "serde_json::value::Value::Object" and fct[3] is False for fct, _d in path_facts(p)) or \
                    any(d.d["how"] == "match" and d.seq > js[-1].seq for d in p.decisions())
            if p.exit not in ("ok", "tail"):
                continue
            n_ok += 1
            v = unmut(p.value)
            if is_call_to(v, lambda x: x == "core::result::Result::Ok") and v[2]:
                v = unmut(v[2][0])
            J = unmut(js[-1].d["ret"]) if js else None
            good = False
            if J is not None:
                known = any(fct[0] == "variant" and fct[2] == "serde_json::value::Value::Object" and fct[3] is True and unmut(fct[1]) == J for fct, _d in path_facts(p))
                good = known and v == ("proj", J, "Value::Object.0")
                if not good and isinstance(v, tuple) and v and v[0] == "call" and v[1] in ctx.facts.fns and J in [unmut(a_) for a_ in v[2]]:
                    # the test lives in a local function that is not evaluated in place (public, say): it must do the same job on the argument it is handed
                    g = ctx.fn(v[1])
                    ga = ctx.fa(g)
                    gi = [unmut(a_) for a_ in v[2]].index(J)
                    if gi < len(ga.param_names):
                        GJ = V("param:" + ga.param_names[gi])
                        g_ok = [q for q in ga.paths if q.exit in ("ok", "tail")]
                        g_good = bool(g_ok) and all(
                            any(fct[0] == "variant" and fct[2] == "serde_json::value::Value::Object" and fct[3] is True and unmut(fct[1]) == GJ for fct, _d in path_facts(q)) and
                            (unmut(unmut(q.value)[2][0]) if is_call_to(unmut(q.value), lambda x: x == "core::result::Result::Ok") and unmut(q.value)[2] else unmut(q.value)) == ("proj", GJ, "Value::Object.0")
                            for q in g_ok)
                        g_err = any(q.exit == "err" and any(fct[0] == "variant" and fct[2] == "serde_json::value::Value::Object" and fct[3] is False for fct, _d in path_facts(q)) for q in ga.paths)
                        if g_good and g_err:
                            good = True
                            own_err = True
            obs.append(Ob("R-REJ-META", f["path"], "Ok only with the Value::Object payload of the parsed document", good,
                          "returns %s" % tstr(v)[:120], rel(f["loc"])))
        obs.append(Ob("R-REJ-META", f["path"], "a parsed document of another kind is an error", own_err and n_ok > 0, "own error exit after the parse: %s" % own_err, rel(f["loc"])))
    return obs


def _is_try_of(p, ev):
    """the path ended by propagating the failure of event `ev` itself (`from_reader(..)?`)"""
    v = p.value[1] if isinstance(p.value, tuple) and len(p.value) > 1 else None
    return v is not None and unmut(v) == unmut(ev.d["ret"])


# ------------------------------------------------------------------------------------------------
# walker

def walker_pairs(ctx, fa, f):
    """how the walker receives the (offset, length) of the directory it reads: [(offset term, length term, type)] — its parameter of type
    (u64, u64), or a parameter whose type is a local struct of exactly two u64 fields.  For the struct the two fields are told apart by USE:
    the one the walker seeks to is the offset (the obligations then demand that the other bounds the decoder and that every construction of
    the struct fills the fields accordingly)."""
    out = []
    for n, prm in zip(fa.param_names, f["params"]):
        ty = (prm["ty"] or "").replace(" ", "")
        P = V("param:" + n)
        if ty == "(u64,u64)":
            out.append((("proj", P, 0), ("proj", P, 1), None))
            continue
        a = ctx.facts.adts.get(ty.replace("&", ""))
        if a is not None and a.get("kind") == "struct" and len(a["variants"]) == 1:
            fl = a["variants"][0]["fields"]
            if len(fl) == 2 and all(x["ty"] == "u64" for x in fl):
                names = [x["name"] for x in fl]
                sought = set()
                for p in fa.paths:
                    for e in p.events:
                        if e.kind == "call" and any(k == "seek" for k, ks in e.d["effects"]) and len(e.d["args"]) > 1:
                            t = unmut(e.d["args"][1])
                            if is_call_to(t, lambda s_: s_ == "std::io::SeekFrom::Start") and t[2]:
                                t0 = unmut(t[2][0])
                                if t0[0] == "f" and t0[1] == P and t0[2] in names:
                                    sought.add(t0[2])
                if len(sought) == 1:
                    o = list(sought)[0]
                    l = [x for x in names if x != o][0]
                    out.append((("f", P, o), ("f", P, l), (a["path"], o, l)))
    return out


def pair_of_arg(x, pairs):
    """(offset, length) handed to a recursive call: a 2-tuple, or a literal of the walker's pair struct"""
    if isinstance(x, tuple) and x and x[0] == "tup" and len(x[1]) == 2:
        return x[1][0], x[1][1]
    if isinstance(x, tuple) and x and x[0] == "struct":
        for _o, _l, ty in pairs:
            if ty is not None and x[1] == ty[0]:
                return struct_field(x, ty[1]), struct_field(x, ty[2])
    return None


def r_walk(ctx):
    obs = []
    ws = ctx.walkers()
    if not ws:
        return no_anchor("R-WALK", "directory walker (recursive function calling Directory::from_*reader)")
    for f in ws:
        fn = f["path"]
        fa = ctx.fa(f)
        pnames = fa.param_names
        n_ins = n_rec = 0
        for p in fa.paths:
            dirs = [e for e in p.events if e.kind == "call" and e.d["fn"].startswith("directory::Directory::from_") and "reader" in e.d["fn"]]
            D = unmut(dirs[0].d["ret"]) if dirs else None
            for e in p.events:
                if e.kind != "call":
                    continue
                if e.d["fn"] == fn:
                    n_rec += 1
                    a = [unmut(x) for x in e.d["args"]]
                    ent = _loop_entry(a, D)
                    # (ii) recursive call: (leaf_dir_offset + entry.offset, entry.length); pass-through of compression, leaf offset, filter
                    wp = walker_pairs(ctx, fa, f)
                    tup = [pr for pr in (pair_of_arg(x, wp) for x in a) if pr is not None]
                    ok_addr = False
                    why = "no (offset, length) tuple argument"
                    if tup and ent is not None:
                        off, ln = tup[0]
                        oa = affine(off)
                        ok_addr = oa[0] == 0 and oa[1] == {role_param(fa, f, "u64"): 1, ("f", ent, "offset"): 1} and aff_eq(affine(ln), affine(("f", ent, "length")))
                        why = "leaf address = (%s, %s)" % (aff_str(oa), aff_str(affine(ln)))
                    obs.append(Ob("R-WALK", fn, "recursion: (leaf_dir_offset + entry.offset, entry.length)", ok_addr, why, e.loc()))
                    for nm, kind in (("compression", "compression"), ("leaf_dir_offset", "u64"), ("filter_range", "range")):
                        pv_ = role_param(fa, f, kind)
                        carrier = pv_[1] if pv_[0] == "f" else pv_        # the parameter itself, or the struct parameter that carries it
                        if carrier[1][6:] in pnames:
                            i = pnames.index(carrier[1][6:])
                            ok = i < len(a) and a[i] == carrier
                            obs.append(Ob("R-WALK", fn, "recursion: %s passed unchanged" % nm, ok, "argument %d = %s" % (i, tstr(a[i])[:80] if i < len(a) else "missing"), e.loc()))
                    # (iii) dispatch on the leaf test of the same entry
                    ok_disp = ent is not None and _decided(p, e.seq, lambda c: _is_leaf_test(c, ent), True)
                    obs.append(Ob("R-WALK", fn, "recursion only for leaf entries (run_length == 0)", ok_disp, "decisions before the recursive call", e.loc()))
                elif e.d["fn"].endswith("HashMap::<K, V, S, A>::insert") and len(e.d["args"]) == 3:
                    n_ins += 1
                    _, key, val = [unmut(x) for x in e.d["args"]]
                    ent = None
                    src = key[1] if isinstance(key, tuple) and key[0] == "elem" else None
                    # `range.filter(..)` yields a subset of the range in order
                    while is_call_to(src, lambda s: s.endswith("::filter")) and src[2]:
                        src = src[2][0]
                    if is_call_to(src, lambda s: s.endswith("::tile_id_range")):
                        ent = src[2][0]
                    ok_val = ent is not None and isinstance(val, tuple) and val[0] == "struct" and struct_field(val, "offset") == ("f", ent, "offset") and struct_field(val, "length") == ("f", ent, "length")
                    ok_ent = ent is not None and D is not None and ent[0] == "elem" and ent[1] == D
                    obs.append(Ob("R-WALK", fn, "insert: key ranges over tile_id_range() of the entry whose offset/length are stored", ok_val and ok_ent,
                                  "key = %s; value = %s" % (tstr(key)[:100], tstr(val)[:120]), e.loc()))
                    ok_disp = ent is not None and _decided(p, e.seq, lambda c: _is_leaf_test(c, ent), False)
                    obs.append(Ob("R-WALK", fn, "insert only for tile entries (run_length != 0)", ok_disp, "decisions before the insert", e.loc()))
        # the entry points hand the walker the (offset, length) pair they were given, components in place
        wp = walker_pairs(ctx, fa, f)
        for g in ctx.user_fns():
            if g["path"] == fn or fn not in set(c["fn"] for c in calls(g["body"])):
                continue
            ga = ctx.fa(g)
            gpairs = [V("param:" + n_) for n_, prm_ in zip(ga.param_names, g["params"]) if (prm_["ty"] or "").replace(" ", "") == "(u64,u64)"]
            if not gpairs:
                continue
            for p in ga.paths:
                for e in p.events:
                    if e.kind == "call" and e.d["fn"] == fn:
                        a = [unmut(x) for x in e.d["args"]]
                        okp = any(x in gpairs for x in a) or any(pr is not None and any(pr == (("proj", P_, 0), ("proj", P_, 1)) for P_ in gpairs) for pr in (pair_of_arg(x, wp) for x in a))
                        obs.append(Ob("R-WALK", g["path"], "entry point passes its (offset, length) pair to the walker unchanged", okp,
                                      "arguments: %s" % ", ".join(tstr(x)[:40] for x in a[1:]), e.loc()))
        if n_ins == 0:
            obs.append(Ob("R-WALK", fn, "insert site", False, "walker never inserts into the tile map", rel(f["loc"])))
        if n_rec == 0:
            obs.append(Ob("R-WALK", fn, "recursion site", False, "walker never recurses", rel(f["loc"])))
    # (iv) tile_id_range = tile_id .. tile_id + run_length
    for f in ctx.user_fns():
        if f["path"].endswith("::tile_id_range"):
            fa = ctx.fa(f)
            for p in fa.paths:
                v = unmut(p.value)
                ok = False
                if isinstance(v, tuple) and v[0] == "struct" and v[1] == "core::ops::range::Range":
                    s0, e0 = struct_field(v, "start"), struct_field(v, "end")
                    me = V("param:self")
                    ok = s0 == ("f", me, "tile_id") and aff_eq(affine(e0), (0, {("f", me, "tile_id"): 1, ("f", me, "run_length"): 1}))
                obs.append(Ob("R-WALK", f["path"], "tile_id_range = tile_id .. tile_id + run_length", ok, "returns %s" % tstr(v)[:140], rel(f["loc"])))
        if f["path"].endswith("::is_leaf_dir_entry"):
            fa = ctx.fa(f)
            rl = ("f", V("param:self"), "run_length")
            for p in fa.paths:
                v = unmut(p.value)
                ok = isinstance(v, tuple) and v[0] == "bin" and v[1] == "==" and {v[2], v[3]} == {rl, C(0)}
                if not ok and isinstance(v, tuple) and v[:2] == ("lit", "bool") and isinstance(v[2], bool):
                    # written as a match / matches! / early returns: the constant answer agrees with what the path knows about run_length
                    ok = knows(p, ("eq", rl, 0)) is not None if v[2] else knows(p, ("ne", rl, 0)) is not None
                obs.append(Ob("R-WALK", f["path"], "is_leaf_dir_entry = (run_length == 0)", ok, "returns %s" % tstr(v)[:100], rel(f["loc"])))
    return obs


def _loop_entry(args, D):
    """the iteration element of the decoded directory that an argument list refers to"""
    for a in args:
        for t in subterms(a):
            if isinstance(t, tuple) and t[0] == "elem" and D is not None and t[1] == D:
                return t
    return None


def _is_leaf_test(c, ent):
    c = unmut(c)
    if is_call_to(c, lambda s: s.endswith("::is_leaf_dir_entry")) and c[2] and c[2][0] == ent:
        return 1
    if isinstance(c, tuple) and c[0] == "bin" and c[1] in ("==", "!=") and {c[2], c[3]} == {("f", ent, "run_length"), C(0)}:
        return 1 if c[1] == "==" else -1
    if isinstance(c, tuple) and c[0] == "un" and c[1] == "!":
        r = _is_leaf_test(c[2], ent)
        return -r if r else 0
    return 0


def _decided(p, upto, test, want_leaf):
    """on this path, before event `upto`, a decision established that the entry is (not) a leaf entry"""
    for fct, d in path_facts(p, upto):
        if fct[0] == "bool":
            r = test(fct[1])
            if r and ((fct[2] is True) == (r > 0)) == want_leaf:
                return True
        elif fct[0] in ("eq", "ne") and fct[2] == 0:
            # run_length == 0 ⇔ leaf entry, in whatever form it was tested (`if`, `match entry.run_length { 0 => .. }`, …)
            r = test(("bin", "==", fct[1], C(0)))
            if r and ((fct[0] == "eq") == (r > 0)) == want_leaf:
                return True
    return False


def r_find(ctx):
    """R-FIND: single-directory lookup = first entry that is not a leaf pointer and whose run contains the id"""
    obs = []
    fs = [f for f in ctx.user_fns() if f["path"].endswith("::find_entry_for_tile_id")]
    if not fs:
        return no_anchor("R-FIND", "Directory::find_entry_for_tile_id")
    for f in fs:
        fa = ctx.fa(f)
        TID = role_param(fa, f, "u64")
        ok = False
        why = "no closure predicate found"
        for p in fa.paths:
            v = unmut(p.value)
            # `iter.filter(p1).find(p2)` is `iter.find(p1 && p2)`: the conjuncts of single-expression filters in front of the find count for its predicate
            filt_conj, filt_ids = [], set()
            if is_call_to(v, lambda s: s.endswith("::find")) and v[2]:
                it = unmut(v[2][0])
                while is_call_to(it, lambda s: s.endswith(("::filter", "::iter", "::into_iter"))) and it[2]:
                    if it[1].endswith("::filter") and len(it[2]) == 2 and unmut(it[2][1])[0] == "clos" and len(unmut(it[2][1])[2]) == 1:
                        cl = unmut(it[2][1])
                        filt_ids.add(cl[1])
                        filt_conj += _conjuncts(unmut(cl[2][0]))
                    it = unmut(it[2][0])
            for t in subterms(v):
                if isinstance(t, tuple) and t[0] == "clos" and t[2] and t[1] not in filt_ids:
                    # every way the predicate can answer `true` must have established both facts (as conjuncts of the returned
                    # expression or as decisions on the way, e.g. an early `return false` for leaf entries)
                    cps = getattr(fa, "clos_paths", {}).get(t[1]) or [(b, []) for b in t[2]]
                    n_true = 0
                    ok = True
                    descr = []
                    for (body, decs) in cps:
                        body = unmut(body)
                        if body == ("lit", "bool", False):
                            continue
                        n_true += 1
                        conj = (_conjuncts(body) if body != ("lit", "bool", True) else []) + filt_conj
                        facts = []
                        for d in decs:
                            facts += decision_facts(d)
                        has_leaf = any(_is_neg_leaf(c) for c in conj) or any(f[0] == "bool" and is_call_to(f[1], lambda s: s.endswith("::is_leaf_dir_entry")) and f[2] is False for f in facts) \
                            or any(f[0] == "ne" and f[1][0] == "f" and f[1][2] == "run_length" and f[2] == 0 for f in facts)
                        has_contains = any(_is_contains(c, TID) for c in conj) or any(f[0] == "bool" and _is_contains(f[1], TID) and f[2] is True for f in facts)
                        extra = [c for c in conj if not _is_neg_leaf(c) and not _is_contains(c, TID)]
                        # the run written out as two comparisons, start ≤ id < start + run_length (which also excludes leaf pointers: their run is empty)
                        lower = upper = False
                        relfacts = list(facts)
                        for c in conj:
                            relfacts += rulebase_atom_facts(unmut(c), True)
                        tid_ = TID
                        used = []
                        for fct in relfacts:
                            if fct[0] == "rel" and fct[1] in ("<", "<=", ">", ">="):
                                op, l, r = fct[1], unmut(fct[2]), unmut(fct[3])
                                if op in ("<", "<="):
                                    op, l, r = {"<": ">", "<=": ">="}[op], r, l
                                if op == ">=" and l == tid_ and r[0] == "f" and r[2] == "tile_id":
                                    lower = True
                                    used.append(fct)
                                if op == ">" and r == tid_:
                                    a_ = affine(l)
                                    ks = sorted(k[2] for k in a_[1] if k[0] == "f")
                                    if a_[0] == 0 and ks == ["run_length", "tile_id"] and all(v == 1 for v in a_[1].values()):
                                        upper = True
                                        used.append(fct)
                        if lower and upper:
                            has_leaf = has_contains = True
                            extra = [c for c in extra if not any(rulebase_atom_facts(unmut(c), True)[0] == u for u in used if rulebase_atom_facts(unmut(c), True))]
                        ok = ok and has_leaf and has_contains and not extra
                        descr.append(tstr(body)[:80])
                    ok = ok and n_true >= 1
                    why = "predicate answers true via: %s" % "; ".join(descr)
            if is_call_to(v, lambda s: s.endswith("::find")) is False:
                ok = False
                why = "lookup is not an iterator `find` over the entries: %s" % tstr(v)[:100]
        if not ok and not any(is_call_to(unmut(p.value), lambda s: s.endswith("::find")) for p in fa.paths):
            ok, why = _find_as_loop(fa, TID)
        obs.append(Ob("R-FIND", f["path"], "predicate = !is_leaf_dir_entry() && tile_id_range().contains(id)", ok, why, rel(f["loc"])))
    return obs


def _find_as_loop(fa, tid=None):
    """the same lookup written as a loop with an early `return Some(entry)`: every such return knows "not a leaf pointer" and "the run covers the id"
    (as `tile_id_range().contains(&id)` or as the two comparisons start ≤ id < start + run_length), the fall-through answer is None"""
    tid = tid if tid is not None else V("param:tile_id")
    n_some = n_none = 0
    for p in fa.paths:
        v = unmut(p.value)
        if is_call_to(v, lambda s: s == "core::option::Option::None"):
            n_none += 1
            continue
        if not (is_call_to(v, lambda s: s == "core::option::Option::Some") and v[2]):
            return False, "returns %s" % tstr(v)[:80]
        ent = unmut(v[2][0])
        if ent[0] != "elem" or iter_base(ent[1]) != ("f", V("param:self"), "entries"):
            return False, "returns Some(%s), which is not an element of the entries in order" % tstr(ent)[:60]
        n_some += 1
        not_leaf = covers = lower = upper = False
        for fct, d in path_facts(p):
            if fct[0] == "bool" and is_call_to(fct[1], lambda s: s.endswith("::is_leaf_dir_entry")) and fct[1][2] and unmut(fct[1][2][0]) == ent and fct[2] is False:
                not_leaf = True
            if fct[0] == "ne" and unmut(fct[1]) == ("f", ent, "run_length") and fct[2] == 0:
                not_leaf = True
            if fct[0] == "bool" and fct[2] is True and _is_contains(fct[1], tid):
                covers = True
            if fct[0] == "rel" and fct[1] in ("<", "<=", ">", ">="):
                op, l, r = fct[1], unmut(fct[2]), unmut(fct[3])
                if op in ("<", "<="):
                    op, l, r = {"<": ">", "<=": ">="}[op], r, l
                # l > r  or  l >= r
                if op == ">=" and l == tid and r == ("f", ent, "tile_id"):
                    lower = True
                if op == ">" and r == tid:
                    a = affine(l)
                    if aff_eq(a, (0, {("f", ent, "tile_id"): 1, ("f", ent, "run_length"): 1})):
                        upper = True
        if not (not_leaf and (covers or (lower and upper))):
            return False, "a `return Some(entry)` path knows: not a leaf pointer = %s, covers the id = %s" % (not_leaf, covers or (lower and upper))
    if n_some == 0 or n_none == 0:
        return False, "no `Some(entry)` return or no `None` fall-through"
    return True, "loop form: %d returning path(s) each know !leaf and start ≤ id < start + run_length" % n_some


def _conjuncts(t):
    if isinstance(t, tuple) and t[0] == "bin" and t[1] == "&&":
        return _conjuncts(t[2]) + _conjuncts(t[3])
    return [t]


def _is_neg_leaf(c):
    return isinstance(c, tuple) and c[0] == "un" and c[1] == "!" and is_call_to(c[2], lambda s: s.endswith("::is_leaf_dir_entry"))


def _is_contains(c, idt):
    return is_call_to(c, lambda s: s.endswith("::contains")) and len(c[2]) == 2 and is_call_to(c[2][0], lambda s: s.endswith("::tile_id_range")) and c[2][1] == idt


# ------------------------------------------------------------------------------------------------
# C20 laziness and bounded reads

def r_lazy(ctx):
    obs = []
    ops = ctx.openers()
    lf = lazy_fetchers(ctx)
    if not ops or not lf:
        return no_anchor("R-LAZY", "opener / lazy fetch functions")
    fetch = set(f["path"] for f in lf)
    # everything that can reach a fetcher is a tile-data reader
    cg = ctx.callgraph()
    readers = set(fetch)
    changed = True
    while changed:
        changed = False
        for p, cs in cg.items():
            if p not in readers and cs & readers:
                readers.add(p)
                changed = True
    for f in ops:
        reach = ctx.reachable([f["path"]])
        bad = sorted(reach & readers)
        obs.append(Ob("R-LAZY", f["path"], "no tile-data reader reachable from the opener", not bad,
                      "reachable tile readers: %s" % (", ".join(bad) or "none"), rel(f["loc"])))
        # the registration call has no stream effect
        for c in calls(f["body"]):
            if c["fn"].endswith("::add_offset_tile"):
                s = ctx.summaries.get(c["fn"], {})
                eff = set().union(*s.values()) if s else set()
                obs.append(Ob("R-LAZY", c["fn"], "registration has no stream effect", not eff, "effects of %s: %s" % (c["fn"], sorted(eff) or "none"), rel(c["loc"])))
    return obs


def read_class(ctx, fnpath, pidx, depth=0):
    """how does local function `fnpath` read its stream parameter #pidx:
       ('fixed', n) | ('bounded', j)  reads only through take(param j) | ('seekbounded',) seeks then bounded reads |
       ('none',) | ('unbounded', why)"""
    key = ("rc", fnpath, pidx)
    if key in ctx._roles:
        return ctx._roles[key]
    ctx._roles[key] = ("rec",)  # provisional for cycles: the recursive call reads the way the function itself does
    f = ctx.fn(fnpath)
    if f is None or depth > 6:
        return ("unbounded", "unknown callee")
    fa = ctx.fa(f)
    pname = fa.param_names[pidx] if pidx < len(fa.param_names) else None
    pvar = fa.params.get(pname)
    results = []
    for p in fa.paths:
        for e in p.events:
            if e.kind != "call":
                continue
            kinds = set(k for k, ks in e.d["effects"] if pvar in ks)
            if "read" not in kinds and "unknown" not in kinds:
                continue
            results.append(_classify_read(ctx, fa, p, e, pvar, depth))
    if not results:
        r = ("none",)
    else:
        bad = [r for r in results if r[0] == "unbounded"]
        if bad:
            r = bad[0]
        else:
            kinds = set(r[0] for r in results)
            if kinds == {"fixed"}:
                r = results[0]
            elif kinds <= {"bounded"} and len(set(results)) == 1:
                r = results[0]
            else:
                r = ("seekbounded",)
    if fnpath in ctx.callgraph().get(fnpath, ()) and r[0] in ("bounded", "fixed"):
        r = ("seekbounded",)
    ctx._roles[key] = r
    return r


def _classify_read(ctx, fa, p, e, pvar, depth):
    fn = e.d["fn"]
    args = [unmut(a) for a in e.d["args"]]
    # which argument carries the stream?
    idxs = [i for i, ks in enumerate(e.d["argkeys"]) if pvar in ks]
    if fn in READ_EXACT:
        node = e.d["arg_nodes"][1] if len(e.d["arg_nodes"]) > 1 else None
        ty = (node or {}).get("ty", "")
        inner = node["e"]["ty"] if node is not None and node["k"] == "Ref" else ty
        if inner.startswith("[u8; ") and inner.endswith("]"):
            direct = fa.root_var(e.d["arg_nodes"][0])
            if direct == pvar:
                return ("fixed", int(inner[5:-1]))
    # a read through a wrapper whose construction chain contains take(n)
    recv = args[0] if args else None
    for a in args:
        for t in _takes_not_unwrapped(a):
            if is_call_to(t, lambda s: s.endswith("::take")) and len(t[2]) == 2:
                n = t[2][1]
                if n[0] == "v" and n[1].startswith("param:"):
                    nm = n[1][6:]
                    if nm in fa.param_names:
                        return ("bounded", fa.param_names.index(nm))
                return ("bounded", ("term", n))
    if fn in ctx.facts.fns:
        for i in idxs:
            rc = read_class(ctx, fn, i, depth + 1)
            if rc[0] == "rec":
                continue
            if rc[0] == "unbounded":
                return ("unbounded", "%s reads its argument without a bound and receives the raw stream" % fn)
            if rc[0] == "bounded":
                return ("bounded", ("via", fn, rc[1]))
            if rc[0] in ("fixed",):
                return rc
            if rc[0] == "seekbounded":
                return ("seekbounded",)
        return ("none",)
    return ("unbounded", "%s on the raw stream" % fn.split("::")[-1])


UNWRAP_SUFFIX = ("::get_mut", "::get_ref", "::into_inner", "::get_pin_mut")


def _takes_not_unwrapped(t, under_unwrap=False):
    """`take(..)` terms that still limit the reader: `take(..).get_mut()` / `.into_inner()` hand out the unlimited inner reader"""
    if not isinstance(t, tuple) or not t:
        return
    if t[0] == "call":
        if t[1].endswith("::take") and not under_unwrap:
            yield t
        uw = t[1].endswith(UNWRAP_SUFFIX)
        for a in t[2]:
            yield from _takes_not_unwrapped(a, uw)
    elif t[0] in ("mut", "f", "proj", "elem"):
        yield from _takes_not_unwrapped(t[1], under_unwrap)
    elif t[0] in ("cast", "un"):
        yield from _takes_not_unwrapped(t[2], under_unwrap)


def r_bounded_read(ctx):
    """R-BOUNDED-READ: on the open path every read of the input is the fixed header read or goes through take(len) after seek(Start(off)) with
    (off, len) one of the header's section pairs / the walker's leaf pair"""
    obs = []
    ops = opener_paths(ctx)
    if not ops:
        return no_anchor("R-BOUNDED-READ", "opener")
    for f, fa, oks in ops:
        fn = f["path"]
        for p in oks:
            he, H = find_header_term(p)
            H = unmut(H)
            # stream parameter = what the header is read from
            S = fa.root_var(he.d["arg_nodes"][0]) if he else None
            for e in p.events:
                if e.kind != "call":
                    continue
                kinds = set(k for k, ks in e.d["effects"] if S in ks)
                if not (kinds & {"read", "unknown"}):
                    continue
                cls = _classify_read(ctx, fa, p, e, S, 0)
                args = [unmut(a) for a in e.d["args"]]
                name = e.d["fn"].split("::")[-1]
                if e is he:
                    ok = cls[0] == "fixed" and cls[1] == 127
                    obs.append(Ob("R-BOUNDED-READ", fn, "header: fixed 127-byte read", ok, "header read class: %s" % (cls,), e.loc()))
                    continue
                if cls[0] == "unbounded":
                    obs.append(Ob("R-BOUNDED-READ", fn, "%s: bounded" % name, False, "unbounded read on the open path: %s" % cls[1], e.loc()))
                    continue
                if cls[0] == "bounded" and isinstance(cls[1], tuple) and cls[1][0] == "term":
                    n = cls[1][1]
                    ok = n == ("f", H, "json_metadata_length")
                    prev = [x for x in p.events if x.kind == "call" and x.seq < e.seq and any(k == "seek" for k, ks in x.d["effects"] if S in ks)]
                    tgt = unmut(prev[-1].d["args"][1]) if prev else None
                    ok_seek = tgt is not None and is_call_to(tgt, lambda s: s == "std::io::SeekFrom::Start") and tgt[2][0] == ("f", H, "json_metadata_offset")
                    obs.append(Ob("R-BOUNDED-READ", fn, "%s: take(header length) after seek(header offset)" % name, ok and ok_seek,
                                  "bound = %s, preceding seek = %s" % (tstr(n)[:80], tstr(tgt)[:80] if tgt else "none"), e.loc()))
                    continue
                if cls[0] == "seekbounded":
                    # the walker: receives (root offset, root length) and the leaf base from the header
                    tup = [x for x in args if isinstance(x, tuple) and x[0] == "tup" and len(x[1]) == 2]
                    ok = bool(tup) and tup[0][1] == (("f", H, "root_directory_offset"), ("f", H, "root_directory_length")) and ("f", H, "leaf_directories_offset") in args
                    obs.append(Ob("R-BOUNDED-READ", fn, "%s: walks from (root_directory_offset, root_directory_length), leaf base leaf_directories_offset" % name, ok,
                                  "args = %s" % ", ".join(tstr(x)[:60] for x in args[1:]), e.loc()))
                    obs.append(Ob("R-WALK", fn, "%s: directories are decoded with header.internal_compression" % name, ("f", H, "internal_compression") in args,
                                  "args = %s" % ", ".join(tstr(x)[:40] for x in args[1:]), e.loc(), only=("C01", "C03", "C04", "C11")))
                    continue
                obs.append(Ob("R-BOUNDED-READ", fn, "%s: bounded" % name, cls[0] in ("fixed", "none"), "read class %s" % (cls,), e.loc()))
    # the walker itself: seek(Start(dir_offset)) then a decoder bounded by dir_length
    for f in ctx.walkers() + [ctx.fn(c) for w in ctx.walkers() for c in ctx.callgraph().get(w["path"], ()) if False]:
        fa = ctx.fa(f)
        fn = f["path"]
        S = None
        for p in fa.paths:
            for e in p.events:
                if e.kind == "call" and e.d["fn"].startswith("directory::Directory::from_") and "reader" in e.d["fn"]:
                    S = fa.root_var(e.d["arg_nodes"][0])
                    args = [unmut(a) for a in e.d["args"]]
                    cls = read_class(ctx, e.d["fn"], 0)
                    prev = [x for x in p.events if x.kind == "call" and x.seq < e.seq and any(k == "seek" for k, ks in x.d["effects"] if S in ks)]
                    tgt = unmut(prev[-1].d["args"][1]) if prev else None
                    # the (offset, length) pair the walker is called with: its one parameter of type (u64, u64), destructured in the signature or in the body
                    pairs = walker_pairs(ctx, fa, f)
                    off_ok = tgt is not None and is_call_to(tgt, lambda s: s == "std::io::SeekFrom::Start") and any(unmut(tgt[2][0]) == o_ for o_, l_, _t in pairs)
                    len_ok = cls[0] == "bounded" and (cls[1] == 1 or (isinstance(cls[1], tuple) and cls[1][0] == "via" and cls[1][2] == 1)) and len(args) > 1 and \
                        any(args[1] == l_ and unmut(tgt[2][0]) == o_ for o_, l_, _t in pairs) if off_ok else False
                    obs.append(Ob("R-BOUNDED-READ", fn, "walker: seek(Start(dir_offset)) then decode bounded by dir_length", off_ok and len_ok,
                                  "seek = %s; decoder class = %s; length arg = %s" % (tstr(tgt)[:60] if tgt else "none", cls, tstr(args[1])[:60] if len(args) > 1 else "?"), e.loc()))
                    break
            if S is not None:
                break
        if S is None:
            obs.append(Ob("R-BOUNDED-READ", fn, "walker: decode call", False, "walker has no Directory::from_*reader call", rel(f["loc"])))
    # the directory decoder: every read goes through take(length)
    for f in ctx.user_fns():
        if f["path"] not in ctx.inlinable and (ctx.calls_inl(f) & {"integer_encoding::reader::VarIntReader::read_varint", "integer_encoding::reader::VarIntAsyncReader::read_varint_async"}) and ctx.has_struct_inl(f, "directory::Directory"):
            cls = read_class(ctx, f["path"], 0)
            fa = ctx.fa(f)
            ok = cls[0] == "bounded" and cls[1] == (fa.param_names.index(role_param(fa, f, "u64")[1][6:]) if role_param(fa, f, "u64")[1][6:] in fa.param_names else -1)
            obs.append(Ob("R-BOUNDED-READ", f["path"], "directory decoder reads only through take(length)", ok, "read class of the input parameter: %s" % (cls,), rel(f["loc"])))
    return obs


# ------------------------------------------------------------------------------------------------
# C13 / C20: the position of a stream after a read through a buffering/decoding wrapper is unspecified

def _pos_summary(ctx, fnpath, pidx, depth=0):
    """(needs_known_position_at_entry, leaves_position_unspecified) for stream parameter #pidx of a local function"""
    key = ("possum", fnpath, pidx)
    if key in ctx._roles:
        return ctx._roles[key]
    ctx._roles[key] = (False, True)   # provisional for recursion: assume it seeks first and leaves the position unspecified
    f = ctx.fn(fnpath)
    if f is None or depth > 8:
        return (True, True)
    fa = ctx.fa(f)
    if pidx >= len(fa.param_names):
        return (False, False)
    S = fa.params.get(fa.param_names[pidx])
    needs = False
    leaves = False
    for p in fa.paths:
        st, viol, first_is_read = _walk_positions(ctx, fa, p, S, depth)
        if first_is_read:
            needs = True
        if p.exit in ("ok", "tail", "unit") and st != "K":
            leaves = True
    ctx._roles[key] = (needs, leaves)
    return (needs, leaves)


def _walk_positions(ctx, fa, p, S, depth=0):
    """simulate the known/unspecified position state of stream S along one path.
    returns (final state, [violating events], first effect on S is a read that needs a known position)"""
    state = "K"
    viol = []
    first = None
    evs = p.events
    for idx, e in enumerate(evs):
        if e.kind == "loop" and e.d["what"] == "enter":
            # a previous iteration may have left the position unspecified
            lid = e.d["lid"]
            body_state = state
            j = idx + 1
            tmp = state
            while j < len(evs) and not (evs[j].kind == "loop" and evs[j].d["what"] == "exit" and evs[j].d["lid"] == lid):
                tmp = _step(ctx, fa, evs[j], S, tmp, None, depth)[0]
                j += 1
            if tmp != "K":
                state = "U" if state == "K" else state
            continue
        if e.kind != "call":
            continue
        nstate, bad, kind = _step(ctx, fa, e, S, state, viol, depth)
        if first is None and kind is not None:
            first = kind
        state = nstate
    return state, viol, first == "read"


def _step(ctx, fa, e, S, state, viol, depth):
    if e.kind != "call":
        return state, False, None
    kinds = set(k for k, ks in e.d["effects"] if S in ks)
    if not kinds:
        return state, False, None
    fn = e.d["fn"]
    if fn in _ab.POS_FNS and e.d.get("direct", S) == S:
        # observing the position is a use of it: after a wrapped read it is wherever the wrapper's read-ahead stopped
        bad = state != "K"
        if bad and viol is not None:
            viol.append((e, "observes the stream position while it is unspecified (a previous read went through a buffering/decoding wrapper, whose read-ahead depends on how the stream fragments reads)"))
        return state, bad, "read"
    if "seek" in kinds and fn in absint_SEEK:
        tgt = unmut(e.d["args"][1]) if len(e.d["args"]) > 1 else None
        if is_call_to(tgt, lambda s: s == "std::io::SeekFrom::Start"):
            return "K", False, "seek"
        if tgt is not None and tgt[0] == "v" and tgt[1].startswith("param:"):
            return "K", False, "seek"     # an absolute SeekFrom handed in by the caller (checked at the caller: R-RESEEK)
        return state, False, "seek"
    if fn in ctx.facts.fns:
        # local callee: which parameter receives S?
        needs = leaves = False
        for i, ks in enumerate(e.d["argkeys"]):
            if S in ks and i < len(e.d["tys"]) and _ab.is_streamlike_ty(e.d["tys"][i]):
                n, l = _pos_summary(ctx, fn, i, depth + 1)
                needs = needs or n
                leaves = leaves or l
        bad = needs and state != "K"
        if bad and viol is not None:
            viol.append((e, "calls %s, which reads at the current position, while the position is unspecified" % fn))
        kind = "read" if needs else ("seek" if ("seek" in kinds) else None)
        if "read" in kinds or "unknown" in kinds:
            return ("U" if leaves else "K"), bad, kind
        return state, bad, kind
    if "read" in kinds or "unknown" in kinds:
        direct = e.d.get("direct")
        raw = direct == S
        wid = None if raw else ("W", direct)
        bad = False
        if raw:
            bad = state != "K"
            new = "K"
        else:
            bad = not (state == "K" or state == wid)
            new = wid
        if bad and viol is not None:
            viol.append((e, "reads through %s while the stream position is unspecified (a previous read went through a different buffering/decoding wrapper)" % ("the raw stream" if raw else "a new wrapper")))
        return new, bad, "read"
    return state, False, None


import absint as _ab
absint_SEEK = _ab.SEEK_FNS


def r_seek_after_codec(ctx):
    """R-SEEK-AFTER-CODEC: decoders and buffered readers may consume more or fewer bytes of the underlying stream than the section they decode,
    depending on how the stream fragments reads; so after a read through such a wrapper the raw position is unspecified, and every later read on the
    stream must first re-establish it with an absolute seek"""
    obs = []
    n = 0
    for f in ctx.user_fns():
        try:
            fa = ctx.fa(f)
        except PathExplosion:
            continue
        for pname in fa.param_names:
            S = fa.params.get(pname)
            if S is None:
                continue
            summ = ctx.summaries.get(f["path"], {})
            idx = fa.param_names.index(pname)
            if "read" not in summ.get(idx, ()):
                continue
            if not _ab.is_streamlike_ty(f["params"][idx]["ty"] or ""):
                continue
            bad = {}
            touched = False
            for p in fa.paths:
                st, viol, first = _walk_positions(ctx, fa, p, S)
                touched = True
                for (e, why) in viol:
                    bad[e.node.get("id")] = (e, why)
            if touched:
                n += 1
                if bad:
                    for (e, why) in bad.values():
                        obs.append(Ob("R-SEEK-AFTER-CODEC", f["path"], "%s on `%s`" % (e.d["fn"].rpartition("::")[2], pname), False, why, e.loc()))
                else:
                    obs.append(Ob("R-SEEK-AFTER-CODEC", f["path"], "every read on `%s` happens at a well-defined position" % pname, True,
                                  "absolute seek precedes every read that follows a wrapped read", rel(f["loc"])))
    if n == 0:
        return no_anchor("R-SEEK-AFTER-CODEC", "functions reading from a stream parameter")
    return obs
